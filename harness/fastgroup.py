"""Real dispatcher + real fast sync groups for C21 / C22.

Everything executable here is produced by the code under test: `EtherXDP().assemble()` (with a
PROG_ARRAY created through the interposed create_map, so that the map table handed to the
specification is complete), `FastSyncGroup(ec, devices)` over hand-configured terminals with the
real devices of ebpfcat.devices, `sg.allocate()`, `sg.assemble()`, `sg.packet.sterile()` /
`.assemble()`.  The harness only decides the configuration (which terminals, sizes, FMMU or not,
which devices), prepends the Ethernet header the kernel socket would add, and runs the emitted
programs through the real kernel (raw bpf(2), harness.kernel) for the machine = kernel comparison.
"""
import os
import struct

from . import kernel, progs

ETH_DST = bytes([0xff] * 6)
ETH_SRC = bytes([0x02, 0x11, 0x22, 0x33, 0x44, 0x55])
INDEX0 = 17


def eth(payload, ethertype=0x88A4):
    return ETH_DST + ETH_SRC + struct.pack(">H", ethertype) + bytes(payload)


# ---- configurations ---------------------------------------------------------------------------
# a layout is a list of terminals: dict(fmmu, insz, outsz, devs=[(kind, offset[, bit])])
#   kinds: "ao" AnalogOutput on the OUT area ('h' at offset), "do" DigitalOutput (bit of the OUT byte),
#          "di" DigitalInput (bit of the IN byte), "ai" AnalogInput ('h' in the IN area)
# plus group-level flags: counter (ebpfcat.devices.Counter, uses ktime), random (RandomOutput)

def T(fmmu, insz, outsz, *devs):
    return dict(fmmu=fmmu, insz=insz, outsz=outsz, devs=list(devs))


def X(which, insz, outsz, *devs):
    """a terminal of a class that lays out its OWN datagrams (overrides EBPFTerminal.allocate, e.g.
    ebpfcat.terminals.AerotechBase): `which` indexes own_layout_classes().  insz / outsz are the bytes
    the class transfers (in_size / out_size); the sync managers themselves are larger."""
    return dict(fmmu=False, own=which, insz=insz, outsz=outsz, devs=list(devs))


def own_layout_classes():
    """every terminal class of the package that overrides EBPFTerminal.allocate, found by introspection
    (so that a class added later is covered too), in a stable order"""
    import importlib
    import pkgutil
    import ebpfcat
    from ebpfcat.ebpfcat import EBPFTerminal
    for m in pkgutil.iter_modules(ebpfcat.__path__):
        if m.name.endswith("_test") or m.name in ("scripts", "testdata"):
            continue
        try:
            importlib.import_module("ebpfcat." + m.name)
        except Exception:
            pass
    out, todo = [], list(EBPFTerminal.__subclasses__())
    while todo:
        c = todo.pop()
        todo.extend(c.__subclasses__())
        if "allocate" in c.__dict__ and c.__module__.startswith("ebpfcat.") and c not in out:
            out.append(c)
    return sorted(out, key=lambda c: (c.__module__, c.__qualname__))


def writers_of(layout):
    """number of write datagrams the configuration calls for (harness-side bookkeeping only)"""
    rw = [t for t in layout if t["outsz"] and any(d[0] in ("ao", "do", "ro") for d in t["devs"])]
    return sum(1 for t in rw if not t["fmmu"]) + (1 if any(t["fmmu"] for t in rw) else 0)


# the layout the dispatcher histories of C22 / C21 are explored with (one direct and one FMMU terminal)
HISTORY_LAYOUT = dict(terms=[T(False, 2, 2, ("ao", 0), ("ai", 0)), T(True, 2, 2, ("ao", 0), ("ai", 0))],
                      counter=False, ethertype=0xA0B1 + 6)


def layouts(n, rng=None):
    """deterministic list of layouts with 1-4 write datagrams, FMMU and direct; rng adds random ones"""
    out = []
    A = lambda o=0: ("ao", o)
    D = lambda o=0, b=0: ("do", o, b)
    I = lambda o=0, b=0: ("di", o, b)
    N = lambda o=0: ("ai", o)
    nown = max(1, len(own_layout_classes()))
    base = [
        [T(False, 2, 4, A(0), I(0, 0))],
        [T(True, 2, 4, A(2), I(1, 3))],
        [T(False, 0, 2, A(0))],
        [T(True, 0, 8, A(6))],
        [T(False, 1, 1, D(0, 5), I(0, 2)), T(False, 0, 2, A(0))],
        [T(True, 1, 1, D(0, 1), I(0, 7)), T(True, 4, 2, A(0), N(2))],
        [T(False, 2, 2, A(0), N(0)), T(True, 2, 2, A(0), N(0))],
        [T(True, 2, 0, N(0)), T(False, 0, 4, A(0), A(2))],
        [T(False, 0, 2, A(0)), T(False, 0, 2, A(0)), T(False, 0, 2, A(0))],
        [T(False, 0, 2, A(0)), T(False, 3, 2, A(0), I(2, 0)), T(False, 0, 1, D(0, 0)), T(False, 0, 6, A(4))],
        [T(False, 0, 2, A(0)), T(True, 0, 2, A(0)), T(False, 2, 2, A(0), N(0)), T(True, 2, 2, A(0)),
         T(False, 0, 1, D(0, 7))],
        [T(True, 0, 2, A(0)), T(True, 0, 2, A(0)), T(True, 0, 2, A(0))],
        [T(False, 2, 2, I(0, 0)), T(True, 2, 2, N(0))],             # outputs present but unused: no write datagram
        [T(True, 2, 2, N(0)), T(True, 1, 3, D(2, 4))],
        [T(False, 20, 30, A(28), N(18), I(3, 3), D(7, 6))],
        [T(False, 0, 2, A(0)), T(False, 0, 2, A(0)), T(False, 0, 2, A(0)), T(True, 2, 2, A(0), N(0)),
         T(True, 0, 4, A(2))],
    ]
    for i, lay in enumerate(base):
        out.append(dict(terms=lay, counter=i % 5 == 4, ethertype=0x88A4 if i % 2 else 0xA0B1 + i))
    # terminals whose class lays out its own datagrams: alone, read-only, next to ordinary direct / FMMU
    # terminals, two of them - for EVERY such class of the package
    own = []
    for w in range(nown):
        own += [[X(w, 8, 8, A(0), N(4))],
                [T(False, 0, 2, A(0)), X(w, 4, 6, A(4), I(1, 2)), T(True, 2, 2, A(0), N(0))],
                [X(w, 8, 0, N(2)), T(True, 0, 2, A(0))],
                [X(w, 2, 2, A(0)), X(w, 0, 12, A(10), A(0))]]
    for i, lay in enumerate(own):
        out.insert(2 + 3 * i if 2 + 3 * i < len(out) else len(out),
                   dict(terms=lay, counter=i % 3 == 2, ethertype=0x88A4 if i % 2 else 0xA1C0 + i))
    k = 0
    while len(out) < n:
        # systematic fill: combinations of direct / FMMU terminals with growing sizes
        k += 1
        nd, nf = k % 4, (k // 4) % 3
        if nd + (1 if nf else 0) == 0:
            nd = 1
        lay = []
        for j in range(nd):
            outsz = 2 + 2 * ((k + j) % 3)
            lay.append(T(False, (k + j) % 3, outsz, A(outsz - 2), *([I(0, (k + j) % 8)] if (k + j) % 3 else [])))
        for j in range(nf):
            outsz = 2 + (k + j) % 5
            lay.append(T(True, 2 * ((k + j) % 2), outsz, A(outsz - 2), *([N(0)] if (k + j) % 2 else [])))
        if k % 7 == 3:
            lay.insert(len(lay) // 2, T(k % 2 == 0, 2, 0, N(0)))
        out.append(dict(terms=lay, counter=k % 6 == 5, ethertype=0x88A4 if k % 3 else 0x9000 + k))
    out = out[:n]
    if rng is not None:
        for _ in range(max(2, n // 8)):
            lay = []
            for j in range(rng.randint(1, 4)):
                insz, outsz = rng.choice([0, 1, 2, 5]), rng.choice([1, 2, 4, 9])
                devs = [("ao", rng.randrange(outsz - 1))] if outsz >= 2 else [("do", 0, rng.randrange(8))]
                if insz:
                    devs.append(("di", rng.randrange(insz), rng.randrange(8)))
                if rng.random() < 0.25:
                    lay.append(X(rng.randrange(nown), insz, max(outsz, 2), *devs))
                else:
                    lay.append(T(rng.random() < 0.5, insz, outsz, *devs))
            out.append(dict(terms=lay, counter=rng.random() < 0.3, ethertype=rng.choice([0x88A4, 0xB000 + rng.randrange(256)])))
    return out


# ---- building with the real classes -------------------------------------------------------------

class Rig:
    """dispatcher + one group, assembled by the real code, with everything the spec needs"""


def build(layout, g=5, with_dispatcher=True, use_kernel=None, seed=1):
    import random
    import ebpfcat.arraymap as am
    from ebpfcat.bpf import MapType
    from ebpfcat.ebpfcat import (EtherXDP, FastSyncGroup, PacketVar, SimpleEtherCat, SyncManager)
    from ebpfcat.terminals import Generic
    from ebpfcat import devices as dv

    rng = random.Random(seed)
    r = Rig()
    r.layout = layout
    r.g = g
    with progs.recording(use_kernel) as maps:
        if with_dispatcher:
            pa = am.create_map(MapType.PROG_ARRAY, 4, 4, 64)
            e = EtherXDP()
            e.programs = pa                       # read by EtherXDP.program when it emits the tail call
            code_d = e.assemble()
            r.pa_fd = pa
        ec = SimpleEtherCat("verif")
        ec.ethertype = layout["ethertype"]
        terms, devs = [], []
        ownc = own_layout_classes()
        for i, t in enumerate(layout["terms"]):
            if t.get("own") is not None and ownc:
                # a concrete terminal type derived from the class, as its documentation asks for
                base = ownc[t["own"] % len(ownc)]
                term = type(f"Own{base.__name__}{i}", (base,), dict(in_size=t["insz"], out_size=t["outsz"]))(ec)
                term.use_fmmu = True
                term.pdo_in_sz = t["insz"] + 120 if t["insz"] else None
                term.pdo_out_sz = t["outsz"] + 200 if t["outsz"] else None
            else:
                term = Generic(ec)
                term.use_fmmu = t["fmmu"]
                term.pdo_in_sz = t["insz"] or None
                term.pdo_out_sz = t["outsz"] or None
            term.position = 1000 + 7 * i
            term.pdo_in_off = 0x1100 + 0x140 * i
            term.pdo_out_off = 0x1000 + 0x140 * i
            term.name = f"t{i}"
            terms.append(term)
            for d in t["devs"]:
                if d[0] == "ao":
                    devs.append(dv.AnalogOutput(PacketVar(term, SyncManager.OUT, d[1], "h")))
                elif d[0] == "do":
                    devs.append(dv.DigitalOutput(PacketVar(term, SyncManager.OUT, d[1], d[2])))
                elif d[0] == "di":
                    devs.append(dv.DigitalInput(PacketVar(term, SyncManager.IN, d[1], d[2])))
                elif d[0] == "ai":
                    devs.append(dv.AnalogInput(PacketVar(term, SyncManager.IN, d[1], "h")))
                else:
                    raise ValueError(d)
        if layout.get("counter"):
            devs.append(dv.Counter())
        sg = FastSyncGroup(ec, devs)
        sg.allocate()
        code_g = sg.assemble()
    r.maps = maps
    r.sg, r.ec, r.terms, r.devs = sg, ec, terms, devs
    r.group = progs.Built(sg, code_g, maps)
    r.code_g = code_g
    if with_dispatcher:
        r.disp = progs.Built(e, code_d, maps)
        r.code_d = code_d
        r.xdp = e
        r.cmap = r.disp.fdno[[m for m in maps if m["type"] == "array"][0]["fd"]]
        r.cmap_fd = [m for m in maps if m["type"] == "array"][0]["fd"]
        r.pmapno = r.disp.fdno[pa]
        r.counters_off = e.__dict__["counters"]
        r.drop_off = e.__dict__["dropcounter"]
    propmap = maps[-1]
    r.props_no = len(maps)
    r.props_fd = propmap["fd"]
    r.props_size = propmap["vs"]
    r.wkc_off = sg.__dict__["wkc_errors"]
    r.uses_ktime = bool(layout.get("counter"))
    # what user space emits / the reference frame with every command in place
    r.sterile = eth(sg.packet.sterile(g, ec.ethertype))
    r.ref = eth(sg.packet.assemble(g, ec.ethertype))
    # configuration as the harness made it (not read back from the generator)
    r.tla_terms = [dict(fmmu=bool(t["fmmu"]), own=t.get("own") is not None, insz=t["insz"], outsz=t["outsz"],
                        rw=any(d[0] in ("ao", "do") for d in t["devs"])) for t in layout["terms"]]
    props = bytearray(rng.getrandbits(8) for _ in range(r.props_size))
    props[r.wkc_off:r.wkc_off + 4] = bytes(4)
    r.props0 = bytes(props)
    return r


def props_with(r, wkc_errors, base=None):
    p = bytearray(base or r.props0)
    p[r.wkc_off:r.wkc_off + 4] = struct.pack("<I", wkc_errors)
    return bytes(p)


def counters_with(r, cb, hi=(0, 0, 0), size=None, others=0):
    size = size or r.maps[r.cmap - 1]["vs"]
    a = bytearray([others % 256]) * size if others else bytearray(size)
    a[r.counters_off + 4 * r.g:r.counters_off + 4 * r.g + 4] = bytes([cb, *hi])
    return bytes(a)


def prog_table(r, registered):
    t = [0] * 64
    if registered:
        t[r.g] = 2
    return [t if i + 1 == r.pmapno else [] for i in range(len(r.maps))]


# ---- the real kernel -------------------------------------------------------------------------------

def _map_delete(fd, key):
    import ctypes
    k = ctypes.create_string_buffer(bytes(key), len(key))
    try:
        kernel._bpf(3, struct.pack("<I4xQ", fd, ctypes.addressof(k)))
    except OSError:
        pass


class KernelRig:
    """both programs loaded into the running kernel; a real PROG_ARRAY; raw PROG_TEST_RUN"""

    def __init__(self, r):
        self.r = r
        self.gfd = kernel.prog_load(r.code_g)
        self.dfd = kernel.prog_load(r.code_d) if hasattr(r, "code_d") else None
        self.reg = None

    def register(self, on, slot=None):
        """the group's program at `slot` of the program array (default: the rig's group), nowhere else"""
        r = self.r
        want = (r.g if slot is None else slot) if on else None
        if self.reg == want:
            return
        if self.reg is not None:
            _map_delete(r.pa_fd, struct.pack("<I", self.reg))
        if want is not None:
            kernel.map_update(r.pa_fd, struct.pack("<I", want), struct.pack("<I", self.gfd))
        self.reg = want

    def deliver(self, counters, props, frame, registered, slot=None):
        """one delivery through the dispatcher: -> (retval, frame out, counters after, props after)"""
        r = self.r
        self.register(registered, slot)
        kernel.map_update(r.cmap_fd, bytes(4), counters)
        kernel.map_update(r.props_fd, bytes(4), props)
        rv, out = kernel.test_run(self.dfd, frame)
        return rv, out, kernel.map_lookup(r.cmap_fd, bytes(4), len(counters)), \
            kernel.map_lookup(r.props_fd, bytes(4), len(props))

    def group_pass(self, props, frame):
        """the group's program alone"""
        r = self.r
        kernel.map_update(r.props_fd, bytes(4), props)
        rv, out = kernel.test_run(self.gfd, frame)
        return rv, out, kernel.map_lookup(r.props_fd, bytes(4), len(props))

    def close(self):
        for fd in (self.gfd, self.dfd):
            if fd is not None:
                os.close(fd)


def close_maps(r):
    if kernel.available():
        for m in r.maps:
            try:
                os.close(m["fd"])
            except OSError:
                pass


# ---- phase 1: the transition table, computed by TLC from the real bytecode ----------------------------

VARIANTS = [dict(reg=False, out=False, en=False), dict(reg=False, out=False, en=True),
            dict(reg=True, out=False, en=False), dict(reg=True, out=True, en=False),
            dict(reg=True, out=True, en=True), dict(reg=True, out=False, en=True)]
ROW_FIELDS = ("act", "cb2", "ix2", "ran", "en2", "etok", "ok21", "others")


def foreign_frames(r, rng=None, n_random=6):
    """frames that are not frames of a fast group (the spec classifies them itself), plus frames that
    carry an identification datagram of some other / no group"""
    import struct as S
    body = r.sterile[14:]
    out = []
    for et in (0x0800, 0x86DD, 0x88A5, 0xA488, 0x0000, 0x8100):
        out.append(("ethertype %04x, group frame inside" % et, eth(body, et)))
    for cmd in (1, 4, 5, 7, 10, 12, 14, 255):
        f = bytearray(r.sterile)
        f[16] = cmd
        out.append((f"EtherCAT, first datagram cmd {cmd}", bytes(f)))
    for ln in (14, 15, 16, 17, 18, 22, 29):
        out.append((f"EtherCAT, {ln} bytes", eth(bytes(ln - 14))))
    out.append(("EtherCAT, first datagram cmd 4, 31 bytes", eth(b"\x0f\x10\x04" + bytes(14))))
    def named(grp, ix=0, body_of=None):
        f = bytearray(body_of or r.sterile)
        f[18:22] = S.pack("<I", grp)
        f[INDEX0] = ix
        return bytes(f)
    for grp in (64, 65, 1000, 0x7fffffff, 0xffffffff, 0x100 + r.g):
        out.append((f"identification datagram, index {grp} (slow path)", named(grp, r.sterile[INDEX0])))
    for grp in (0, 63, (r.g + 1) % 64):
        out.append((f"frame of fast group {grp} (nothing registered there)", named(grp, 3)))
        out.append((f"fresh frame of fast group {grp} (nothing registered there)", named(grp, 0)))
    # indices that AGREE with a group number in their low bits: every way of reading less than the whole
    # 32-bit field (8 / 16 / 24 bits, signed) turns them into frames of that group.  User space really
    # sends such frames: EtherCat.roundtrip_packet draws its indices with randint(2000, 1000000000).
    for low in (r.g, 0, 63):
        for k in (8, 16, 24):
            for m in (1, 0x55, 0xff):
                if m << k < 1 << 32:
                    grp = ((m << k) & 0xffffffff) | low
                    for ix in (0, 1):
                        out.append((f"index {grp:#x} (= group {low} in its low {k} bits)", named(grp, ix)))
        out.append((f"index {0x80000000 | low:#x} (= group {low} without the top bit)", named(0x80000000 | low, 0)))
        out.append((f"index {0xffffff00 | low:#x} (= group {low} in its low 8 bits, negative as a signed word)",
                    named(0xffffff00 | low, 0)))
    # the same with an ordinary user-space packet around it (Packet.assemble output, as the send loop produces)
    from ebpfcat.ethercat import ECCmd, Packet
    for grp in (0x10000 + r.g, 0x3b9a0000 + r.g, 2000, 1000000000):
        p = Packet()
        p.append(ECCmd.FPRD, bytes(20), 0, 7, 0x1000)
        out.append((f"ordinary packet with index {grp:#x}", eth(p.assemble(grp, 0x3456))))
    if rng is not None:
        for _ in range(max(4, n_random // 2)):         # indices as roundtrip_packet draws them, and aliases of groups
            grp = rng.randint(2000, 1000000000)
            out.append((f"random index {grp:#x}", named(grp, rng.randrange(256))))
            grp = (rng.randint(1, 0xffff) << 16) | rng.randrange(64)
            out.append((f"random index {grp:#x} (low half is a group number)", named(grp, rng.choice([0, 1, 255]))))
        for _ in range(n_random):
            ln = rng.randint(14, 120)
            f = bytearray(rng.getrandbits(8) for _ in range(ln))
            if rng.random() < 0.5 and ln > 17:
                f[12:14] = b"\x88\xa4"
                if rng.random() < 0.7:
                    f[16] = rng.randint(1, 255)
                else:
                    f[12] = 0x08
            out.append((f"random {ln} bytes", bytes(f)))
    return out


def make_setup(r, K, cbs, his=(), foreign=(), orc=None, groups=(), gcbs=()):
    extra = {} if orc is None else dict(orc=list(orc))
    return dict(**extra, programs=[r.disp.insns, r.group.insns], maps=r.disp.tla_maps(),
                progsReg=prog_table(r, True), progsUnreg=prog_table(r, False), g=r.g, cmap=r.cmap,
                pmap=r.props_no, countersOff=r.counters_off, countersSize=r.maps[r.cmap - 1]["vs"],
                sterile=list(r.sterile), ref=list(r.ref), terms=r.tla_terms, props0=list(r.props0),
                wkcOff=r.wkc_off, cbs=list(cbs), K=K, variants=VARIANTS, his=list(his),
                progmap=r.pmapno, groups=list(groups), gcbs=list(gcbs) if groups else [],
                foreign=[dict(pkt=list(p), cb=cb, reg=reg) for p, cb, reg in foreign])


def run_table(ctx, r, K, cbs, his=(), foreign=(), workers=6, timeout=1500, orc=None, groups=(), gcbs=()):
    """-> (entries {(cb, ix, v, hi): outcome}, foreign verdicts [outcome], TLC result); the comparisons with
    other slots of the program table are left in res.groups = {(cb, ix, v): [base, groups]}"""
    import json
    from . import tlc as TL
    wd = ctx.workdir("C22tab")
    path = os.path.join(wd, "setup.json")
    with open(path, "w") as f:
        json.dump(make_setup(r, K, cbs, his, foreign, orc, groups, gcbs), f)
    res = TL.run(wd, "DispatcherTable", "DispatcherTable.cfg", workers=workers, timeout=timeout,
                 deadlock=False, env={"TRACE_FILE": path})
    if res.error or not res.finished:
        raise TL.MachineryError("DispatcherTable failed:\n" + (res.error or res.out[-3000:]))
    ctx.tlc_stats(res)
    entries = {}
    for cb, ix, v, hi, o in TL.printed_records(res, "T"):
        entries[(cb, ix, v, tuple(hi))] = o
    fv = {}
    for i, o in TL.printed_records(res, "F"):
        fv[i] = o
    if len(fv) != len(foreign):
        raise TL.MachineryError(f"{len(fv)} foreign verdicts for {len(foreign)} frames")
    res.groups = {(cb, ix, v): o for cb, ix, v, o in TL.printed_records(res, "G")}
    want = len({(cb, 0 if d == 2 * K + 1 else (cb - d) % 256, v) for cb in (gcbs if groups else ())
                for d in range(2 * K + 2) for v in range(1, len(VARIANTS) + 1)})
    if len(res.groups) != want:
        raise TL.MachineryError(f"{len(res.groups)} group comparisons, expected {want}")
    return entries, [fv[i + 1] for i in range(len(foreign))], res


def table_json(entries, K, cbs, starts, fresh_ix):
    """the table in the order Dispatcher.tla indexes it; every key must be present"""
    from . import tlc as TL
    nd = 2 * K + 2
    rows = []
    for cb in cbs:
        for d in range(nd):
            ix = 0 if d == nd - 1 else (cb - d) % 256
            for v in range(1, len(VARIANTS) + 1):
                o = entries.get((cb, ix, v, (0, 0, 0)))
                if o is None:
                    raise TL.MachineryError(f"table entry {(cb, ix, v)} missing")
                rows.append({k: o[k] for k in ROW_FIELDS})
    return dict(K=K, nv=len(VARIANTS), cbs=list(cbs), starts=list(starts), rows=rows, freshIx=fresh_ix)


def kernel_check_entries(r, entries, foreign, fverdicts):
    """execute every table entry (and every foreign frame) through the real kernel: real PROG_ARRAY,
    real tail call, raw PROG_TEST_RUN.  -> (number executed, list of mismatches)"""
    kr = KernelRig(r)
    size = r.maps[r.cmap - 1]["vs"]
    bad = []
    n = 0
    order = sorted(entries, key=lambda k: (VARIANTS[k[2] - 1]["reg"], k))      # unregistered first
    try:
        for key in order:
            cb, ix, v, hi = key
            o = entries[key]
            var = VARIANTS[v - 1]
            rv, out, ctrs, props = kr.deliver(counters_with(r, cb, hi, size), props_with(r, 1 if var["out"] else 0),
                                              bytes(o["pktin"]), var["reg"])
            n += 1
            want_rv = {"ABORTED": 0, "DROP": 1, "PASS": 2, "TX": 3}.get(o["act"])
            why = []
            if want_rv != rv:
                why.append(f"action: machine {o['act']} kernel {rv}")
            if bytes(o["pkt"]) != out:
                why.append("frame differs")
            if bytes(o["ctrs"]) != ctrs:
                why.append("counter map differs")
            if bytes(o["props"]) != props:
                why.append("group map differs")
            if why:
                bad.append((key, why))
        for (pkt, cb, reg), o in zip(foreign, fverdicts):
            rv, out, ctrs, props = kr.deliver(bytes(o["ctrs0"]), bytes(o["props0"]), bytes(pkt), reg)
            n += 1
            want_rv = {"ABORTED": 0, "DROP": 1, "PASS": 2, "TX": 3}.get(o["act"])
            why = []
            if want_rv != rv:
                why.append(f"action: machine {o['act']} kernel {rv}")
            if bytes(o["pkt"]) != out:
                why.append("frame differs")
            if bytes(o["ctrs"]) != ctrs or bytes(o["props"]) != props:
                why.append("maps differ")
            if why:
                bad.append((("foreign", bytes(pkt).hex()), why))
    finally:
        kr.register(False)
        kr.close()
    return n, bad


def kernel_check_groups(r, groups):
    """the deliveries for groups registered at other slots, through the real kernel"""
    kr = KernelRig(r)
    n, bad = 0, []
    try:
        for (cb, ix, v), rec in sorted(groups.items()):
            var = VARIANTS[v - 1]
            for gj in rec["groups"]:
                o = gj["out"]
                rv, out, ctrs, props = kr.deliver(bytes(o["ctrs0"]), bytes(o["props0"]), bytes(o["pktin"]),
                                                  var["reg"], slot=gj["h"])
                n += 1
                if {"ABORTED": 0, "DROP": 1, "PASS": 2, "TX": 3}.get(o["act"]) != rv or bytes(o["pkt"]) != out \
                        or bytes(o["ctrs"]) != ctrs or bytes(o["props"]) != props:
                    bad.append(((gj["h"], cb, ix, v), f"machine {o['act']} kernel {rv}"))
    finally:
        kr.register(False)
        kr.close()
    return n, bad


# ---- phase 2: the histories -------------------------------------------------------------------------

def model_cfg(invariants, start_registered=True, can_unregister=True, pass_bound=6, inject_unreg=False,
              hist=False, track_bus=False, max_flight=3, window=True, can_lose=True, fifo=False):
    b = lambda x: "TRUE" if x else "FALSE"
    return (f"SPECIFICATION Spec\nCONSTANTS\n StartRegistered = {b(start_registered)}\n"
            f" CanUnregister = {b(can_unregister)}\n MaxFlight = {max_flight}\n PassBound = {pass_bound}\n"
            f" CanInject = TRUE\n CanInjectUnreg = {b(inject_unreg)}\n CanLose = {b(can_lose)}\n"
            f" Hist = {b(hist)}\n TrackBus = {b(track_bus)}\n Fifo = {b(fifo)}\n"
            + ("CONSTRAINT Window\n" if window else "")
            + "INVARIANTS\n" + "".join(f" {i}\n" for i in invariants) + "CHECK_DEADLOCK FALSE\n")


def run_model(ctx, wd, tpath, invariants, workers=6, timeout=1500, count=True, **kw):
    from . import tlc as TL
    name = f"disp_{abs(hash((tuple(invariants), tuple(sorted(kw.items()))))) % 10**8}.cfg"
    TL.write_cfg(wd, name, model_cfg(invariants, **kw))
    res = TL.run(wd, "Dispatcher", name, workers=workers, timeout=timeout, deadlock=False,
                 env={"TABLE_FILE": tpath})
    if res.error:
        raise TL.MachineryError("Dispatcher model failed:\n" + res.error + res.out[-2000:])
    if not res.invariant_violated and not res.finished:
        raise TL.MachineryError("Dispatcher model did not finish:\n" + res.out[-2000:])
    if count:
        ctx.tlc_stats(res)
    return res


def check_invariants(ctx, wd, tpath, invariants, **kw):
    """run the model; -> {invariant: annotated counterexample (list of events)} for every violated one.
    TLC stops at the first violated invariant, so the run is repeated without it until clean; each
    counterexample is re-derived with Hist = TRUE (events kept in the state) for the report."""
    left = list(invariants)
    found = {}
    while True:
        res = run_model(ctx, wd, tpath, left, count=False, **kw)
        if not res.invariant_violated:
            ctx.tlc_stats(res)                      # the run that explored the whole space
            break
        inv = res.invariant_violated[0]
        res2 = run_model(ctx, wd, tpath, [inv], count=False, workers=1, **dict(kw, hist=True))   # deterministic
        found[inv] = parse_trace(res2.out if res2.invariant_violated else res.out)
        left.remove(inv)
    return found


def parse_trace(out):
    """TLC counterexample -> list of states {action, vars}"""
    import re
    from . import tlc as TL
    m = re.search(r"^Error: The behavior up to this point is:\n(.*?)(?=\n\d+ states generated|\nError: |\Z)",
                  out, re.S | re.M)
    if not m:
        return []
    states = []
    for blk in re.split(r"\n(?=State \d+: )", m.group(1)):
        h = re.match(r"State (\d+): <?([A-Za-z ]+?)(?: line [^\n]*)?>?\n(.*)", blk, re.S)
        if not h:
            continue
        vs = {}
        for vm in re.finditer(r"^/\\ (\w+) = (.*?)(?=\n/\\ |\Z)", h.group(3), re.S | re.M):
            try:
                vs[vm.group(1)] = TL.parse_value(vm.group(2).strip())
            except Exception:
                vs[vm.group(1)] = vm.group(2).strip()
        states.append(dict(action=h.group(2).strip(), vars=vs))
    return states


def history(states):
    """the events of an annotated counterexample, compact"""
    out = []
    for s in states[1:]:
        ev = s["vars"].get("ev")
        if not isinstance(ev, dict):
            out.append(dict(k=s["action"]))
            continue
        e = dict(ev)
        if e.get("k") == "deliver":
            e["kind"] = ("runs-group" if e["ran"] else "passive-to-bus" if e["act"] == "TX"
                         else "to-user-space" if e["act"] == "PASS" else e["act"])
        e["since"] = s["vars"].get("since")
        out.append(e)
    return out


def describe(hist):
    parts = []
    for e in hist:
        if e.get("k") == "deliver":
            parts.append(f"deliver(ix={e['ix']}{',enabled' if e['en'] else ''} @counter {e['cb']})->{e['kind']}"
                         + (f"[ix'={e['ix2']},counter'={e['cb2']}]" if e["act"] == "TX" else ""))
        elif e.get("k") == "lose":
            parts.append(f"lose(ix={e['ix']})")
        else:
            parts.append(str(e.get("k")))
    return "; ".join(parts)


# ---- C21: what user space emits, what one pass of the group's program does ------------------------------

def parse_dgrams(frame):
    """datagram offsets of a frame (harness-side, only to GENERATE inputs; the spec parses on its own)"""
    out, p = [], 16
    while p + 12 <= len(frame):
        ln = int.from_bytes(frame[p + 6:p + 8], "little")
        nxt = p + 12 + (ln & 0x7ff)
        if nxt > len(frame):
            break
        out.append((p, frame[p], (ln & 0x7ff)))
        if not ln & 0x8000:
            break
        p = nxt
    return out


def writer_slots(r):
    """(command offset, wkc offset, value a fully successful write returns) per write datagram of the
    reference frame - used to fabricate returned frames; the expected values the verdict uses are
    computed by the spec from the configuration"""
    nf = sum(1 for t in r.tla_terms if t["fmmu"] and t["rw"] and t["outsz"])
    return [(p, p + 10 + ln, nf if cmd in (10, 11, 12) else 1)
            for p, cmd, ln in parse_dgrams(r.ref) if cmd in (2, 3, 5, 6, 8, 9, 11, 12, 13, 14)]


def returned_frame(r, enabled, wrong, index_byte, rng, wrong_kind=0):
    """a frame as it comes back from the bus: write datagrams enabled or not, returned working
    counters right (= every addressed terminal took it) or wrong for the datagrams in `wrong`"""
    f = bytearray(r.ref if enabled else r.sterile)
    f[INDEX0] = index_byte
    for i, (p, w, full) in enumerate(writer_slots(r)):
        if i in wrong:
            v = [full + 1, 0, full + 256, rng.randrange(65536)][wrong_kind % 4]
            if v == full:
                v = full + 2
        else:
            v = full
        f[w:w + 2] = struct.pack("<H", v)
    for p, cmd, ln in parse_dgrams(r.ref):
        if cmd in (4, 10) and ln:                       # read datagrams come back with input data
            f[p + 10:p + 10 + ln] = bytes(rng.getrandbits(8) for _ in range(ln))
    return bytes(f)


def userspace_frames(r, script, budget=20000):
    """drive the REAL FastSyncGroup.run / update_devices over a recording stand-in for the EtherCat
    object (register_sync_group, roundtrip_packet) under virtual time; script = list of what the bus
    answers to each cyclic frame: ("frame", bytes) | ("timeout",).  -> list of frames user space
    handed to roundtrip_packet (payloads, without Ethernet header), and how the run ended"""
    import asyncio
    from contextlib import asynccontextmanager, contextmanager
    from . import simloop
    sg, ec = r.sg, r.ec
    sent = []
    state = dict(futures=[], end=None)

    @contextmanager
    def register_sync_group(group):
        yield r.g

    def roundtrip_packet(data, index=None):
        sent.append(bytes(data))
        fut = asyncio.get_event_loop().create_future()
        state["futures"].append(fut)
        return fut

    async def noop(*a, **k):
        return None

    @asynccontextmanager
    async def map_fmmu(*a, **k):
        yield

    ec.register_sync_group = register_sync_group
    ec.roundtrip_packet = roundtrip_packet
    for t in r.terms:
        t.to_operational = noop
        t.set_state = noop
        t.map_fmmu = map_fmmu
    sg.running = True
    sg.current_data = None
    sg.cycletime = 0.01

    async def main():
        task = asyncio.ensure_future(sg.run())
        served = 0
        steps = list(script)
        for _ in range(400):
            await asyncio.sleep(0.001)
            if task.done():
                break
            live = [f for f in state["futures"] if not f.done()]
            if not live:
                continue
            if not steps:
                sg.running = False
                live[-1].set_result(bytes(r.sterile[14:]))
                continue
            st = steps[0]
            if st[0] == "timeout":
                steps.pop(0)
                await asyncio.sleep(0.03)            # longer than the 20 ms the loop waits
            else:
                steps.pop(0)
                live[-1].set_result(bytearray(st[1][14:]))
            served += 1
        if not task.done():
            task.cancel()
        try:
            await task
            state["end"] = "returned"
        except asyncio.CancelledError:
            state["end"] = "cancelled"
        except Exception as e:                       # the code under test raising is a result, not a crash
            state["end"] = f"raised {type(e).__name__}: {e}"

    try:
        simloop.run(main, budget=budget)
    except simloop.StallError as e:
        state["end"] = f"stalled: {e}"
    finally:
        for name in ("register_sync_group", "roundtrip_packet"):
            ec.__dict__.pop(name, None)
    return sent, state["end"]
