"""Real OS processes that run the real ParallelEtherCat.run() one system call at a time (C23).

Every participant of a schedule is a separate forked process.  In the worker - and only there -
  * the hard-coded paths /run/lock, /run/ebpf and /sys/fs/bpf are mapped into a private directory
    (`root`): ebpfcat.ebpfcat.os / fcntl / tempfile / shutil / open and ebpfcat.lock.os / fcntl are
    replaced by proxies that map the path, report "about to run <call>" to the controller over a pipe
    ("gate") and wait for "go";
  * bpf.create_map / obj_pin / obj_get, EtherXDP.attach / detach / close and EtherCat.connect (there
    is no NIC and no bpffs here) are replaced by recorders that keep the shared "kernel" state in
    files under root: the pin file's content is the table it refers to, root/kernel/attached says
    who attached a dispatcher and which table it uses; each is a gated step as well;
  * the recorders for connect, create_map, attach, obj_pin and obj_get raise OSError(ENOBUFS) when
    the schedule marks the step as failing (f): the environment the start-up must cope with;
  * random.randrange (new ethertype, FMMU window number) hands out the values the controller supplies
    with "go" (a counting fallback otherwise), because the specification leaves them free: the value
    the schedule chose, preceded - for the FMMU window - by one adversarial draw, a number whose bit
    is set in the bitmap file at that moment (a correct loop rejects it and draws again);
  * a blocking lockf / flock is attempted non-blocking after each "go": when it would block the
    worker reports "blocked" and parks at the same gate again, so the controller never hangs in it;
    os.close of the interface mutex's descriptor (which releases the flock) is a gated step.

Controller -> worker:  ("start", root, name, mode)  ("go", [choices])  ("stop",)  ("quit",)
A worker process serves one run after the other (a new "start" after "done" / "exc"); a process that
was killed or is left parked at a gate is replaced.
Worker -> controller:  (kind, ..., obs, snap) with kind in
     "gate", name          parked before the call `name`
     "running", info       run() has yielded (the context is entered); info.addr = get_fmmu_addr()
     "done"                the context manager has exited
     "exc", where, text    an exception left run() in "start" or "stop"
  obs: what the calls since the last message did; snap: ec.ethertype, the table ec.programs refers to,
  fmmu_lock_file.base_addr >> 22, and whether the process is between create_map and obj_pin.

`replay(...)` drives one schedule ([{p, a, c, f}, ...], a = "crash" kills the process, a = "cancel"
raises CancelledError inside the connect / attach / detach the participant is about to await) and then lets
every participant run to its end (all leave); after every step the shared state is read from the
private directory.  mode "fmmu": the participants are bare `FMMULock(path)` ... `remove()` users.
The schedule may come from another protocol than the code's (the earlier, unrepaired ones):
  * a participant parked at a call the schedule does not name passes the calls in between (at most
    8, never leaving its context unasked) until it is at the named call; calls passed this way are
    remembered and a later step naming one of them is dropped;
  * a participant that would have to wait in flock (interface mutex) or lockf (bitmap) reports
    "blocked" and stays parked there; the step is dropped and the controller goes on with the next
    step of the schedule.  Nothing depends on timing; the receive timeout only guards against a
    process that never answers.
Nothing here judges anything: the events go to TLC (spec/ParallelTrace.tla).
"""
import asyncio
import errno
import json
import multiprocessing
import os
import shutil
import signal
import sys

IF = "vf0"
LOCKDIR = f"/run/lock/ebpf.{IF}.lock"
PROGS = f"/sys/fs/bpf/{IF}/programs"
MBX = f"/run/ebpf/{IF}"
FMMU = MBX + ".fmmu"
MUTEX = f"/run/lock/ebpf.{IF}.mutex"
AWAITED = ("connect", "attach", "detach")                # calls run() awaits: a cancellation arrives there
STOP_FIRST = ("open:mutex", "remove:own", "lock:fmmu")   # first call of a stop sequence (new / old / bare)
PREFIXES = ("/run/lock", "/run/ebpf", "/sys/fs/bpf")
ALL = ("p1", "p2", "p3")
ETH0 = 0x88A4


class Hang(Exception):
    pass


def _worker(conn, repo):
    import builtins
    import fcntl as real_fcntl
    import logging
    import shutil as real_shutil
    import tempfile as real_tempfile
    if repo not in sys.path:
        sys.path.insert(0, repo)
    import ebpfcat.ebpfcat as E
    import ebpfcat.ethercat as EC
    import ebpfcat.lock as L
    logging.disable(logging.CRITICAL)
    obs = []
    choices = []
    tables = {}                  # handle -> table id
    fdkind = {}
    S = dict(ec=None, fl=None, fault=False, inst=False, nexth=100, fb_eth=0x3000, fb_addr=0, root='', name='')

    def mp(path):
        path = os.fspath(path)
        for pre in PREFIXES:
            if path == pre or path.startswith(pre + "/"):
                return S['root'] + path
        return path

    def kind(path):
        path = os.fspath(path)
        if path.startswith(S['root']):
            path = path[len(S['root']):]
        if path == PROGS:
            return "pin"
        if path == MBX:
            return "mbx"
        if path == FMMU:
            return "fmmu"
        if path == LOCKDIR:
            return "lockdir"
        if path == MUTEX:
            return "mutex"
        if path.startswith(LOCKDIR + "/"):
            return "own"
        if path.startswith("/run/lock/"):
            return "tmp"
        return os.path.basename(path)

    def snapshot():
        ec = S["ec"]
        fl = S["fl"] if S["fl"] is not None else getattr(ec, "fmmu_lock_file", None)
        base = getattr(fl, "base_addr", 0) if fl is not None else 0
        return dict(eth=getattr(ec, "ethertype", ETH0), tab=tables.get(getattr(ec, "programs", None), "none"),
                    win=base >> 22, inst=S["inst"])

    def send(*a):
        conn.send(tuple(a) + (list(obs), snapshot()))
        del obs[:]

    def gate(name):
        send("gate", name)
        msg = conn.recv()
        if msg[0] != "go":
            os._exit(0)
        choices[:] = list(msg[1])
        S["fault"] = msg[2] if len(msg) > 2 else False      # False / True (the call fails) / "cancel"

    def environment(call, awaiting=False, failable=True):
        """the kernel-facing calls of the start-up fail when the schedule says so; the task is
        cancelled inside an awaited call (connect / attach / detach) when the schedule says so"""
        if S["fault"] == "cancel":
            S["fault"] = False
            if awaiting:
                S["inst"] = False
                note(call, "cancelled")
                raise asyncio.CancelledError()
            return
        if S["fault"] and failable:
            S["fault"] = False
            S["inst"] = False                    # the attempt to install is over: the error handler runs
            note(call, "fault", fault=True)
            raise OSError(errno.ENOBUFS, "No buffer space available (injected by the schedule)")

    def note(call, res="ok", **kw):
        obs.append(dict(call=call, res=res, **kw))

    def guarded(call, fn, *a, **kw):
        try:
            r = fn(*a)
        except BaseException as e:
            note(call, type(e).__name__, **kw)
            raise
        note(call, "ok", **kw)
        return r

    def fake_randrange(a, b=None):
        """random.randrange for the code under test: the values the controller supplies with "go",
        then a counting fallback"""
        if choices:
            v, src = choices.pop(0), "script"
        elif (a, b) == (0x3000, 0x6000):
            S["fb_eth"] += 1
            v, src = S["fb_eth"], "fallback"
        else:
            S["fb_addr"] += 1
            v, src = S["fb_addr"], "fallback"
        obs.append(dict(call="randrange", res="ok", v=v, src=src))
        return v

    class OsProxy:
        def __getattr__(self, k):
            return getattr(os, k)

        def makedirs(self, path, *a, **kw):
            return os.makedirs(mp(path), *a, **kw)

        def rename(self, a, b):
            gate("rename")
            return guarded("rename", os.rename, mp(a), mp(b))

        def remove(self, path):
            k = kind(path)
            gate("remove:" + k)
            return guarded("remove:" + k, os.remove, mp(path))

        def rmdir(self, path):
            gate("rmdir")
            return guarded("rmdir", os.rmdir, mp(path))

        def open(self, path, flags, *a):
            k = kind(path)
            call = ("open_x:" if flags & os.O_EXCL else "open:") + k
            gate(call)
            fd = guarded(call, os.open, mp(path), flags, *a)
            fdkind[fd] = k
            return fd

        def close(self, fd):
            k = fdkind.pop(fd, "?")
            if k == "mutex":                     # closing the descriptor releases the flock
                gate("close:mutex")
                return guarded("close:mutex", os.close, fd)
            return os.close(fd)

        def write(self, fd, data):
            k = fdkind.get(fd, "?")
            gate("write:" + k)
            return guarded("write:" + k, os.write, fd, data)

        def ftruncate(self, fd, n):
            k = fdkind.get(fd, "?")
            if k != "mbx":                       # the mailbox lock file's size is C15's business
                gate("trunc:" + k)
            return guarded("trunc:" + k, os.ftruncate, fd, n)

        def pread(self, fd, n, off):
            k = fdkind.get(fd, "?")
            gate("pread:" + k)
            return guarded("pread:" + k, os.pread, fd, n, off)

        def pwrite(self, fd, data, off):
            k = fdkind.get(fd, "?")
            gate("pwrite:" + k)
            return guarded("pwrite:" + k, os.pwrite, fd, data, off)

    class FcntlProxy:
        def __getattr__(self, k):
            return getattr(real_fcntl, k)

        def _lock(self, fn, fd, cmd, a):
            k = fdkind.get(fd, "?")
            if cmd & real_fcntl.LOCK_UN:
                gate("unlock:" + k)
                return guarded("unlock:" + k, fn, fd, cmd, *a)
            while True:
                gate("lock:" + k)
                try:
                    r = fn(fd, cmd | real_fcntl.LOCK_NB, *a)
                except OSError:
                    note("lock:" + k, "blocked")
                    if cmd & real_fcntl.LOCK_NB:
                        raise
                    continue
                note("lock:" + k, "ok")
                return r

        def lockf(self, fd, cmd, *a):
            return self._lock(real_fcntl.lockf, fd, cmd, a)

        def flock(self, fd, cmd):
            return self._lock(real_fcntl.flock, fd, cmd, ())

    class TempProxy:
        def __getattr__(self, k):
            return getattr(real_tempfile, k)

        def mkdtemp(self, suffix=None, prefix=None, dir=None):
            gate("mkdtemp")
            d = real_tempfile.mkdtemp(suffix, prefix, mp(dir) if dir is not None else None)
            note("mkdtemp", "ok", path=d)
            return d

    class ShutilProxy:
        def __getattr__(self, k):
            return getattr(real_shutil, k)

        def rmtree(self, path, *a, **kw):
            call = "rmtree_lock" if kind(path) == "lockdir" else "rmtree"
            gate(call)
            return guarded(call, real_shutil.rmtree, mp(path))

    def fake_open(path, mode="r", *a, **kw):
        if set(mode) & set("xwa"):           # creating the ethertype file, exclusively or not
            gate("xopen")
            return guarded("xopen", lambda: builtins.open(mp(path), mode, *a, **kw))
        return builtins.open(mp(path), mode, *a, **kw)

    # ---- the "kernel": bpf objects and the XDP attachment, shared through files under root
    def create_map(*a, **kw):
        gate("create_map")
        environment("create_map")
        S["nexth"] += 1
        tables[S["nexth"]] = S['name']
        S["inst"] = True
        note("create_map", "ok")
        return S["nexth"]

    def obj_pin(pathname, fd):
        gate("pin")
        try:
            environment("pin")
            def pin():
                f = os.open(mp(pathname), os.O_CREAT | os.O_EXCL | os.O_WRONLY)
                os.write(f, tables.get(fd, "?").encode())
                os.close(f)
            guarded("pin", pin)
        finally:
            S["inst"] = False

    def obj_get(pathname):
        gate("obj_get")
        environment("obj_get")

        def get():
            with builtins.open(mp(pathname)) as f:
                return f.read()
        t = guarded("obj_get", get)
        S["nexth"] += 1
        tables[S["nexth"]] = t
        return S["nexth"]

    async def attach(self, network, *a, **kw):
        gate("attach")
        environment("attach", awaiting=True)

        def att():
            with builtins.open(os.path.join(S['root'], "kernel", "attached"), "w") as f:
                json.dump(dict(o=S['name'], t=tables.get(getattr(self, "programs", None), "none")), f)
        guarded("attach", att)

    async def detach(self, network, *a, **kw):
        gate("detach")
        environment("detach", awaiting=True, failable=False)
        try:
            os.remove(os.path.join(S['root'], "kernel", "attached"))
        except FileNotFoundError:
            pass
        note("detach", "ok")

    def close(self):
        note("close", "ok")

    async def connect(self):
        gate("connect")
        environment("connect", awaiting=True)
        note("connect", "ok")

    async def nosleep(t=0, *a):
        note("sleep", "ok")

    osp = OsProxy()
    E.os = osp
    L.os = osp
    L.fcntl = FcntlProxy()
    if hasattr(E, "fcntl"):
        E.fcntl = L.fcntl
    E.tempfile = TempProxy()
    E.shutil = ShutilProxy()
    E.open = fake_open
    E.randrange = fake_randrange
    L.randrange = fake_randrange
    E.sleep = nosleep
    E.create_map = create_map
    E.obj_pin = obj_pin
    E.obj_get = obj_get
    E.EtherXDP.attach = attach
    E.EtherXDP.detach = detach
    E.EtherXDP.close = close
    EC.EtherCat.connect = connect

    def drive(coro):
        for _ in range(1000):
            try:
                coro.send(None)
            except StopIteration as s:
                return s.value
        raise RuntimeError("run() suspended on something the harness does not provide")

    def text(e):
        return f"{type(e).__name__}: {e}"[:200]

    def once():
        msg = conn.recv()
        if msg[0] != "start":
            os._exit(0)
        for fd in list(fdkind):              # descriptors the previous run left open (and their locks)
            try:
                os.close(fd)
            except OSError:
                pass
        fdkind.clear()
        tables.clear()
        del obs[:], choices[:]
        S.update(ec=None, fl=None, inst=False, nexth=100, fb_eth=0x3000, fb_addr=0, root=msg[1], name=msg[2])
        if msg[3] == "fmmu":                 # the class on its own: FMMULock(path) ... remove()
            try:
                fl = L.FMMULock(FMMU)
            except Exception as e:
                send("exc", "start", text(e))
                return
            S["fl"] = fl
            send("running", dict(addr=fl.base_addr))
            if conn.recv()[0] != "stop":
                os._exit(0)
            try:
                fl.remove()
            except Exception as e:
                send("exc", "stop", text(e))
            else:
                send("done")
            return
        ec = E.ParallelEtherCat(IF)
        S["ec"] = ec
        cm = ec.run()
        try:
            drive(cm.__aenter__())
        except (Exception, asyncio.CancelledError) as e:
            S["inst"] = False
            send("exc", "start", text(e))
            return
        try:
            info = dict(addr=ec.get_fmmu_addr())
        except Exception as e:
            info = dict(addr=-1, exc=text(e))
        send("running", info)
        if conn.recv()[0] != "stop":
            os._exit(0)
        try:
            drive(cm.__aexit__(None, None, None))
        except (Exception, asyncio.CancelledError) as e:
            S["inst"] = False
            send("exc", "stop", text(e))
        else:
            send("done")

    try:
        while True:
            once()
    except (EOFError, OSError):
        pass
    os._exit(0)


class Part:
    """controller-side handle of one participant process"""

    def __init__(self, repo, timeout=10.0):
        ctx = multiprocessing.get_context("fork")
        self.conn, child = ctx.Pipe()
        self.proc = ctx.Process(target=_worker, args=(child, repo), daemon=True)
        self.proc.start()
        child.close()
        self.timeout = timeout
        self.begin("", "")

    def begin(self, root, name, mode="run"):
        """a new run in the same process; mode "run": ParallelEtherCat.run(), "fmmu": a bare FMMULock"""
        self.root = root
        self.name = name
        self.mode = mode
        self.state = "new"          # new / gate / running / done / failed / crashed
        self.parked = None
        self.ph = "idle"
        self.snap = dict(eth=ETH0, tab="none", win=0, inst=False)
        self.win = 0
        self.tmpdir = None
        self.exc = ""
        self.blocked = False
        self.leaving = False

    def _recv(self):
        if not self.conn.poll(self.timeout):
            raise Hang(f"{self.name} did not answer")
        try:
            msg = self.conn.recv()
        except EOFError:
            raise Hang(f"{self.name} died")
        self.obs, self.snap = msg[-2], msg[-1]
        for o in self.obs:
            if o.get("call") == "mkdtemp" and o.get("path"):
                self.tmpdir = o["path"]
        k = msg[0]
        if k == "gate":
            self.state, self.parked = "gate", msg[1]
        elif k == "running":
            self.state, self.parked = "running", None      # the next gate is known after "stop"
            self.ph = "running"
            self.win = msg[1]["addr"] >> 22 if msg[1]["addr"] >= 0 else -1
        elif k == "done":
            self.state, self.parked, self.ph = "done", None, "done"
        elif k == "exc":
            self.state, self.parked, self.ph = "failed", None, "failed"
            self.exc = f"{msg[1]}: {msg[2]}"
        return msg

    def ensure_parked(self):
        """bring the participant to its next gate without executing anything"""
        if self.state == "new":
            self.conn.send(("start", self.root, self.name, self.mode))
            self._recv()
        elif self.state == "running":
            self.conn.send(("stop",))
            self.leaving = True
            self._recv()

    def go(self, choice, probe=(), fault=False):
        gate_before = self.parked
        self.conn.send(("go", list(probe) + ([choice] if choice else []), fault))
        msg = self._recv()
        self.blocked = (msg[0] == "gate" and msg[1] == gate_before and
                        any(o.get("res") == "blocked" for o in self.obs))
        if self.blocked:                     # it waits in lockf / flock: nothing has happened
            return msg
        if self.ph == "idle":
            self.ph = "starting"
        elif self.ph == "running" and self.leaving and msg[0] != "running":
            self.ph = "stopping"             # the first call of the stop sequence has run
        return msg

    def final(self):
        return self.state in ("done", "failed", "crashed")

    def kill(self):
        try:
            os.kill(self.proc.pid, signal.SIGKILL)
        except (ProcessLookupError, TypeError):
            pass
        self.proc.join(2)
        self.state, self.parked, self.ph = "crashed", None, "crashed"
        self.snap = dict(self.snap, inst=False)

    def stop(self):
        try:
            self.conn.send(("quit",))
        except (OSError, ValueError):
            pass
        self.proc.join(0.2)
        if self.proc.is_alive():
            self.proc.kill()
            self.proc.join(1)
        self.conn.close()


def observe(root, parts, holder, mutex="none"):
    """the shared state as found in the private directory"""
    ld = root + LOCKDIR
    if os.path.isdir(ld):
        m = []
        for f in sorted(os.listdir(ld)):
            stem = f[:-5] if f.endswith(".lock") else ""
            m.append(int(stem) if stem.isdigit() else -1)
        lockdir = dict(ex=True, m=m)
    else:
        lockdir = dict(ex=False, m=[])
    tmp = {}
    for p in ALL:
        d = parts[p].tmpdir if p in parts else None
        tmp[p] = 0 if not d or not os.path.isdir(d) else (2 if os.listdir(d) else 1)
    try:
        with open(root + PROGS) as f:
            pin = f.read() or "?"
    except FileNotFoundError:
        pin = "none"
    try:
        with open(os.path.join(root, "kernel", "attached")) as f:
            att = json.load(f)
    except FileNotFoundError:
        att = dict(o="none", t="none")
    try:
        with open(root + FMMU, "rb") as f:      # the controller holds no lock: closing is harmless
            data = f.read()
        fm = dict(ex=True, len=len(data), bits=[8 * i + b for i, x in enumerate(data) for b in range(8) if x >> b & 1])
    except FileNotFoundError:
        fm = dict(ex=False, len=0, bits=[])
    return dict(lockdir=lockdir, tmp=tmp, pin=pin, att=att, mbx=os.path.exists(root + MBX), fm=fm,
                holder=holder, mutex=mutex)


def status(parts):
    st = {}
    for p in ALL:
        w = parts.get(p)
        if w is None:
            st[p] = dict(ph="idle", inst=False, eth=ETH0, win=0, tab="none")
        else:
            win = w.win if w.win else w.snap["win"]
            st[p] = dict(ph=w.ph, inst=bool(w.snap["inst"]) and not w.final(), eth=w.snap["eth"], win=win,
                         tab=w.snap["tab"])
    return st


def replay(repo, base, schedule, tag="r", drain=True, timeout=10.0, pool=None, mode="run", procs=()):
    """run one schedule on the real code; returns dict(ev=[...], drift=n, exc={p: text}).
    pool: list of idle worker processes kept between calls; mode: see Part.begin; procs: the
    participants of the scenario (those the schedule has not started yet join afterwards).
    After the schedule: whoever is in the middle of starting or stopping finishes (error handlers
    included), the participants that have not started yet start, and only then the running ones
    leave, one after the other - so what a step of the schedule damaged is met by a newcomer and by
    a leaver while the others are still inside their contexts.
    A participant that would have to wait in lockf / flock reports "blocked" and stays parked at
    that call: the schedule's step is dropped (nothing happened) and the controller goes on with
    the next step of the schedule - no timeouts are involved."""
    root = os.path.join(base, tag)
    shutil.rmtree(root, ignore_errors=True)
    os.makedirs(root + "/run/lock")
    os.makedirs(os.path.join(root, "kernel"))
    parts = {}
    ev = []
    st8 = dict(holder="none", mutex="none", drift=0, blocked=0)
    ahead = {}                                   # calls passed that the schedule did not name (yet)

    def look():
        return observe(root, parts, st8["holder"], st8["mutex"])


    def step(p, a, c, expected=True, f=False):
        w = parts.get(p)
        if w is None:
            w = parts[p] = pool.pop() if pool else Part(repo, timeout)
            w.begin(root, p, mode)
        if a == "crash":
            if w.state == "new":
                w.ensure_parked()
            if w.final():
                st8["drift"] += 1
                return False
            w.kill()
            for k in ("holder", "mutex"):
                if st8[k] == p:
                    st8[k] = "none"
            ev.append(dict(p=p, a="crash", c=0, f=False, res="killed", obs=look(),
                           st=status(parts)))
            return True
        if w.final():
            st8["drift"] += 1
            return False
        if a == "cancel":                        # the task is cancelled inside the call it awaits
            if w.state in ("new", "running"):
                w.ensure_parked()
            g = w.parked
            if w.final() or g not in AWAITED:
                st8["drift"] += 1
                return False
            w.go(0, (), "cancel")
            ev.append(dict(p=p, a="cancel", c=0, f=False, res="cancelled in " + g, exc=w.exc, obs=look(),
                           st=status(parts)))
            return True
        if expected and a is not None and a in ahead.get(p, []) and w.parked != a:
            ahead[p].remove(a)                   # passed already on the way to an earlier step
            return True
        if expected and a is not None and w.state == "running" and a not in STOP_FIRST:
            st8["drift"] += 1                    # never leave the context unless the schedule says so
            return True
        w.ensure_parked()
        if w.final():                            # an exception before the first gate
            ev.append(dict(p=p, a="-", c=0, f=False, res=w.exc, obs=look(), st=status(parts)))
            return True
        g = w.parked
        if expected and a is not None and g != a:
            # the code is not at the call the schedule expects (its protocol differs from the
            # model's): let it pass the calls in between, but never leave the context for it
            st8["drift"] += 1
            if a in ahead.get(p, []):
                ahead[p].remove(a)
                return True
            for _ in range(8):
                if w.final() or w.state == "running" or w.parked == a:
                    break
                passing = w.parked
                step(p, None, 0, expected=False)
                if w.blocked:
                    break
                ahead.setdefault(p, []).append(passing)
            if w.final() or w.state == "running" or w.blocked:
                return True
            g = w.parked
        # The specification only says that FMMULock's loop ends with a free window number: the
        # first number drawn is adversarial - one whose bit is set in the bitmap file right now
        probe = []
        if g in ("pread:fmmu", "trunc:fmmu") and w.ph == "starting":
            probe = [b for b in observe(root, parts, "")["fm"]["bits"] if 1 <= b < 512][:1]
        w.go(c, probe, f)
        drawn = [o["v"] for o in w.obs if o.get("call") == "randrange"]
        res = [o["res"] for o in w.obs if o.get("call") == g]
        for o in w.obs:
            if o.get("call", "").startswith("lock:fmmu") and o["res"] == "ok":
                st8["holder"] = p
            elif o.get("call", "").startswith("unlock:fmmu") and o["res"] == "ok":
                st8["holder"] = "none"
            elif o.get("call") == "lock:mutex" and o["res"] == "ok":
                st8["mutex"] = p
            elif o.get("call") == "close:mutex":
                st8["mutex"] = "none"
        if w.blocked:                            # a lock attempt that has to wait changes nothing
            st8["blocked"] += 1
            return True
        ev.append(dict(p=p, a=g, c=drawn[-1] if drawn else 0, f=any(o.get("fault") for o in w.obs),
                       res=res[0] if res else "?",
                       exc=w.exc, obs=look(), st=status(parts)))
        return True

    hang = ""
    try:
        for s in schedule:
            step(s["p"], s["a"], s.get("c", 0), f=bool(s.get("f", False)))
        if drain:
            budget = [600]

            def advance(p, leave):
                """p runs until it is inside its context (leave: until it has left) or waits"""
                if p not in parts:
                    step(p, None, 0, expected=False)
                w = parts[p]
                moved = False
                while not w.final() and budget[0] > 0 and (leave or w.state != "running"):
                    budget[0] -= 1
                    step(p, None, 0, expected=False)
                    if w.blocked:
                        break
                    moved = True
                return moved

            names = sorted(set(parts) | set(procs))
            for leave in (False, True):
                progress = True
                while progress and budget[0] > 0:
                    progress = False
                    for p in names:
                        if p in parts and parts[p].final():
                            continue
                        if not leave and p in parts and parts[p].state == "running":
                            continue
                        progress = advance(p, leave) or progress
    except Hang as h:
        hang = str(h)
    finally:
        exc = {p: w.exc for p, w in parts.items() if w.exc}
        for w in parts.values():
            if pool is not None and not hang and w.state in ("done", "failed"):
                pool.append(w)                   # its process waits for the next run
            else:
                w.stop()
        shutil.rmtree(root, ignore_errors=True)
    return dict(ev=ev, drift=st8["drift"], blocked=st8["blocked"], exc=exc, hang=hang)
