"""Driver for C29: random device classes with random DeviceVar formats on a REAL ProcessSyncGroup,
exercised alternately from the controlling process and from the spawned sync-group process.

The child is created by the real `ProcessSyncGroup.start()` (spawn context; the group, its
devices and their positions in the shared array travel by pickling), runs the real
subprocess_run / subprocess_loop / run on an empty simulated segment (harness.procstandin), and
every cycle calls the devices' update(), as the real code does.  One extra device, the Conductor,
uses its update() to execute - in the child - the batches of reads and writes the parent sends
over a pipe, and to report what each read returned.  The parent executes its own batches between
two child batches, so the merged history is totally ordered.

Device classes must be importable by the child under the same name: they are generated, from
fixed seeds, when this module is imported (in the parent by install(), in the child from the
environment variable the parent leaves behind).  Import only after the repository is on
sys.path.

Nothing here compares a value read with a value written: values travel as their canonical text
(repr) into the trace, and spec/SharedVarsTrace.tla decides.
"""
import ast
import json
import os
import random
import sys
import threading
import time

import ebpfcat.ebpfcat as E

ENV = "VERIF_C29_SETS"
# sets may be run from several threads; constructing and starting a group (class dictionaries are
# walked by SimulatedEBPF.__init__ and touched by pickle's __slotnames__ cache) is serialised
_START = threading.Lock()

UNSIGNED = {"B": 1, "H": 2, "I": 4, "Q": 8, "<H": 2, ">I": 4, ">Q": 8}
SIGNED = {"b": 1, "h": 2, "i": 4, "q": 8, ">h": 2, "<q": 8, "<i": 4}
OTHER = ["x", "f", "d", "?", "2B", "3H", "2I", "4s", "2q"]
FORMATS = list(UNSIGNED) + list(SIGNED) + OTHER


def value(rng, fmt):
    """a value of the format's domain (boundaries often), as Python object"""
    if fmt in UNSIGNED:
        top = 256 ** UNSIGNED[fmt] - 1
        return rng.choice([0, 1, top, top // 2 + 1, rng.randint(0, top), rng.randint(0, top)])
    if fmt in SIGNED:
        top = 256 ** SIGNED[fmt] // 2 - 1
        return rng.choice([0, -1, top, -top - 1, rng.randint(-top - 1, top), rng.randint(-top - 1, top)])
    if fmt == "x":          # fixed point, 1e-5: multiples of 1/32 are exact both in binary and in 1e-5 ...
        if rng.random() < 0.4:
            # ... and decimals whose float product with 100000 falls just below the integer (0.29, 0.57, 1.15):
            # a conversion that truncates instead of rounding is wrong exactly on these
            from .mapdecl import TRICKY_FIXED
            return rng.choice(TRICKY_FIXED) / 100000
        return rng.randint(-2 ** 30, 2 ** 30) / 32
    if fmt == "f":          # exact in binary32
        return rng.randint(-2 ** 20, 2 ** 20) / 8
    if fmt == "d":
        return rng.choice([0.0, -1.5, rng.uniform(-1e9, 1e9), rng.random()])
    if fmt == "?":
        return rng.random() < 0.5
    if fmt == "2B":
        return (rng.randint(0, 255), rng.randint(0, 255))
    if fmt == "3H":
        return tuple(rng.choice([0, 65535, rng.randint(0, 65535)]) for _ in range(3))
    if fmt == "2I":
        return tuple(rng.choice([0, 2 ** 32 - 1, rng.randint(0, 2 ** 32 - 1)]) for _ in range(2))
    if fmt == "2q":
        return tuple(rng.choice([-1, -2 ** 63, 2 ** 63 - 1, rng.randint(-2 ** 63, 2 ** 63 - 1)])
                     for _ in range(2))
    if fmt == "4s":
        return bytes(rng.randint(0, 255) for _ in range(4))
    raise ValueError(fmt)


def gen_set(seed, big=False):
    """-> dict(seed, big, classes=[dict(name, base, vars=[[name, fmt, write]])], instances=[class
    index], turns=[dict(side, ops=[[kind, inst, var, text]])]); pure function of (seed, big)"""
    rng = random.Random(seed * 2 + int(big))
    classes = []
    for j in range(rng.randint(1, 4 if big else 3)):
        base = rng.randrange(j) if j and rng.random() < 0.35 else None
        inherited = []
        b = base
        while b is not None:
            inherited += [v[0] for v in classes[b]["vars"]]
            b = classes[b]["base"]
        vs = []
        for n in range(rng.randint(1, 6 if big else 4)):
            if inherited and rng.random() < 0.3:
                name = rng.choice(inherited)            # the subclass redefines the variable
                if name in [v[0] for v in vs]:
                    continue
            else:
                name = f"v{j}_{n}"
            vs.append([name, rng.choice(FORMATS), rng.random() < 0.5])
        classes.append(dict(name=f"S{seed}{'b' if big else 'a'}_C{j}", base=base, vars=vs))
    instances = [rng.randrange(len(classes)) for _ in range(rng.randint(2, 5 if big else 4))]
    # the variables of every instance: (inst, name, fmt) with the format the instance's class
    # resolves the name to
    variables = []
    for i, ci in enumerate(instances):
        seen = {}
        c = ci
        while c is not None:
            for name, fmt, _ in classes[c]["vars"]:
                seen.setdefault(name, fmt)
            c = classes[c]["base"]
        variables += [(i, name, fmt) for name, fmt in sorted(seen.items())]
    turns, written = [], set()
    side = rng.choice(["parent", "child"])
    nops = 0
    want = 40 if big else 20
    while nops < want:
        ops = []
        for _ in range(rng.randint(1, 3)):
            v = rng.randrange(len(variables))
            inst, name, fmt = variables[v]
            if v not in written or rng.random() < 0.45:
                ops.append(["w", v, repr(value(rng, fmt))])
                written.add(v)
            else:
                ops.append(["r", v])
            nops += 1
        turns.append(dict(side=side, ops=ops))
        side = "child" if side == "parent" else "parent"
    # every variable written by one side is read by the other at the end
    for s in (side, "child" if side == "parent" else "parent"):
        turns.append(dict(side=s, ops=[["r", v] for v in sorted(written)]))
    return dict(seed=seed, big=big, classes=classes, instances=instances,
                variables=[list(v) for v in variables], turns=turns)


def build_classes(spec):
    out = []
    mod = sys.modules[__name__]
    for c in spec["classes"]:
        if hasattr(mod, c["name"]):
            out.append(getattr(mod, c["name"]))
            continue
        base = out[c["base"]] if c["base"] is not None else E.Device
        attrs = {name: E.DeviceVar(fmt, write=w) for name, fmt, w in c["vars"]}
        attrs["__module__"] = __name__
        cls = type(c["name"], (base,), attrs)
        cls.__qualname__ = c["name"]
        setattr(mod, c["name"], cls)
        out.append(cls)
    return out


def install(sets):
    """sets: [[seed, big]]; builds the classes here and leaves the list for spawned children"""
    cur = json.loads(os.environ.get(ENV, "[]"))
    for s in sets:
        if list(s) not in cur:
            cur.append(list(s))
    os.environ[ENV] = json.dumps(cur)
    for seed, big in sets:
        build_classes(gen_set(seed, big))


for _seed, _big in json.loads(os.environ.get(ENV, "[]")):
    build_classes(gen_set(_seed, _big))


# ---------------------------------------------------------------------------------------------

def observe_layout(devs, variables):
    """position of every variable in the shared array as this process has it; -1 = none"""
    return [devs[i].__dict__.get(name, -1) if isinstance(devs[i].__dict__.get(name, -1), int) else -1
            for i, name, fmt in variables]


def execute(devs, variables, op):
    i, name, fmt = variables[op[1]]
    try:
        if op[0] == "w":
            setattr(devs[i], name, ast.literal_eval(op[2]))
            return dict(res="ok", x=op[2])
        return dict(res="ok", x=repr(getattr(devs[i], name)))
    except Exception as e:
        return dict(res=f"{type(e).__name__}: {e}"[:160], x="")


class Conductor(E.Device):
    """runs, inside update() in the sync group's process, what the parent asks for"""
    conn = None
    variables = ()

    def update(self):
        c = self.conn
        try:
            while c is not None and c.poll():
                msg = c.recv()
                devs = self.sync_group.devices
                if msg[0] == "layout":
                    c.send(observe_layout(devs, self.variables))
                elif msg[0] == "ops":
                    c.send([execute(devs, self.variables, op) for op in msg[1]])
        except (EOFError, OSError):
            self.conn = None


def run_set(spec, wd, tag, answer_timeout=30.0):
    """-> dict(layout={parent, child}, ev=[...], array_len, notes)"""
    import asyncio
    import logging
    from . import procstandin as P
    from .lifecycle import config, _exited
    classes = build_classes(spec)
    variables = [tuple(v) for v in spec["variables"]]
    path = os.path.join(wd, f"seg-{tag}.json")
    with open(path, "w") as f:
        json.dump(dict(config("process", 0, (), ()), packet_index=-1), f)
    out = dict(ev=[], notes=[])

    async def main():
        with _START:
            ec = P.StandInEtherCat(path)
            devs = [classes[ci]() for ci in spec["instances"]]
            cond = Conductor()
            cond.variables = variables
            sg = E.ProcessSyncGroup(ec, devs + [cond])
            sg.cycletime = 0.001
            mine, theirs = sg.ctx.Pipe()
            cond.conn = theirs
            task = sg.start()
            theirs.close()
        pid = sg.process.pid

        def ask(msg, n):
            try:
                mine.send(msg)
                if mine.poll(answer_timeout):
                    return mine.recv()
                return None
            except (EOFError, OSError):
                return None
        try:
            await asyncio.sleep(0)
            lay_p = observe_layout(devs, variables)
            lay_c = ask(("layout",), 0)
            if lay_c is None:
                out["notes"].append("the sync group's process did not answer")
                lay_c = [-1] * len(variables)
            out["layout"] = dict(parent=lay_p, child=lay_c)
            arr = sg.__dict__.get("properties")
            out["array_len"] = len(arr) if arr is not None else -1
            dead = False
            for turn in spec["turns"]:
                if turn["side"] == "parent":
                    res = [execute(devs, variables, op) for op in turn["ops"]]
                else:
                    res = None if dead else ask(("ops", turn["ops"]), len(turn["ops"]))
                    if res is None:
                        dead = True
                        res = [dict(res="no answer from the sync group's process", x="")
                               for _ in turn["ops"]]
                for op, r in zip(turn["ops"], res):
                    out["ev"].append(dict(t=op[0], c=turn["side"], v=op[1] + 1, x=r["x"], res=r["res"]))
        finally:
            task.cancel()
            await asyncio.wait([task], timeout=10.0)
            t_end = time.time() + 10.0
            while not _exited(pid) and time.time() < t_end:
                await asyncio.sleep(0.01)
            try:
                if not _exited(pid):
                    sg.process.kill()
                sg.process.join(5)
            except Exception:
                pass
            mine.close()
            if task.done() and not task.cancelled():
                task.exception()

    logging.disable(logging.CRITICAL)
    loop = asyncio.new_event_loop()
    loop.set_exception_handler(lambda lp, c: None)
    try:
        asyncio.set_event_loop(loop)
        loop.run_until_complete(main())
    finally:
        logging.disable(logging.NOTSET)
        asyncio.set_event_loop(None)
        loop.close()
    return out
