"""ESC register semantics on top of harness/simbus.SimTerminal, for X01 (terminal initialisation).

`EscTerminal` is a SimTerminal whose sync-manager register blocks behave as the EtherCAT slave
controller's do (the semantics Terminal.write_pdo_sm relies on when it deactivates a sync manager
before it changes its length):

  * 0x805 + 8n (status) and 0x807 + 8n (PDI control) are read-only for the master,
  * start / length / control (0x800 + 8n .. +4) accept a write only while the sync manager is
    deactivated (bit 0 of 0x806 + 8n clear *before* the datagram),
  * a mailbox sync manager works only while it is activated.

Every write access (whatever the EtherCAT command) is appended to the shared `journal` as
(terminal name, offset, bytes), in bus order.  `areas()` dumps the registers the specification
tracks, `untracked_changes()` lists every other address whose content differs from a baseline.
The same semantics are written down in spec/EscInit.tla (EscWrite); the dumps recorded at the end
of each call are compared with the specification's own register file, so a disagreement between
this simulator and the specification shows up as a rejected trace.
"""
from . import simbus

SM_BASE, SM_END = 0x800, 0x880
FMMU_BASE = 0x600
WD_REGS = (0x400, 0x410, 0x420)
SII_LO, SII_HI = 0x502, 0x510      # control/status, address, data: not part of the tracked file


class EscTerminal(simbus.SimTerminal):
    def __init__(self, name="T", fmmus=4, station=0, journal=None):
        super().__init__(name, fmmus=fmmus, station=station)
        self.journal = journal if journal is not None else []

    # ---- register semantics -------------------------------------------------------------
    def sm_active(self, n):
        return bool(self.mem[SM_BASE + 8 * n + 6] & 1)

    def write(self, off, data):
        data = bytes(data)
        self.journal.append((self.name, off, data))
        if off < SM_END and off + len(data) > SM_BASE:
            active = [self.sm_active(n) for n in range(16)]
            eff = bytearray(data)
            for k in range(len(data)):
                a = off + k
                if SM_BASE <= a < SM_END:
                    n, o = divmod(a - SM_BASE, 8)
                    if o in (5, 7) or (o <= 4 and active[n]):
                        eff[k] = self.mem[a]
            data = bytes(eff)
        super().write(off, data)

    def mailboxes(self):
        out, inn = super().mailboxes()
        if out is not None and not self.sm_active(out[0]):
            out = None
        if inn is not None and not self.sm_active(inn[0]):
            inn = None
        return out, inn

    # ---- observation -----------------------------------------------------------------------
    def tracked(self):
        """address ranges of the register file the specification keeps"""
        nf = self.mem[4]
        return [(0x10, 2)] + [(a, 2) for a in WD_REGS] + \
            ([(FMMU_BASE, 16 * nf)] if nf else []) + [(SM_BASE, SM_END - SM_BASE)]

    def regs(self):
        """dump of the tracked registers as spec/EscInitTrace.tla (EscOf) reads it"""
        import struct
        nf = self.mem[4]
        return dict(station=self.station,
                    wd=[struct.unpack_from("<H", self.mem, a)[0] for a in WD_REGS],
                    fmmu=[list(self.mem[FMMU_BASE + 16 * i:FMMU_BASE + 16 * i + 16]) for i in range(nf)],
                    sm=[list(self.mem[SM_BASE + 8 * n:SM_BASE + 8 * n + 8]) for n in range(16)])

    def baseline(self):
        return bytes(self.mem)

    def untracked_changes(self, base, ignore=()):
        """addresses outside the tracked registers and the SII interface that differ from base;
        ignore: (start, length) memory areas (e.g. the mailboxes) left out"""
        now, was = bytearray(self.mem), bytearray(base)
        for start, n in self.tracked() + [(SII_LO, SII_HI - SII_LO)] + list(ignore):
            stop = min(start + n, len(now))
            now[start:stop] = bytes(stop - start)
            was[start:stop] = bytes(stop - start)
        if now == was:
            return []
        return [a for a in range(len(now)) if now[a] != was[a]]
