"""Build programs of nested / sequenced with-blocks with the REAL ebpfcat classes (C03).

Conditions (tuples):
    ("cmp", op, lexpr, rexpr)      op in gt ge lt le ne eq
    ("truth", expr)                `with expr:`  (expr = ("bin", "and", a, m) is the bit test)
    ("not", c) | ("and", c1, c2) | ("or", c1, c2)
Expressions are dslgen trees plus ("field", pos, bits) - a bit field of a map byte.
Statements:  ("mark", i)  |  ("exit",)  |  ("with", cond, [stmts], [stmts] or None)

`program(stmts)` returns the bytecode, the statement list in the record form of spec/Dsl.tla, the
operand locations and the marker locations.  Nothing about truth values is computed here."""
import operator

from . import progs
from .dslgen import FMT_SIZE, REG_SRC_FMT, OPS, OPERAND_REGS, NotGenerated, word

CMP = dict(gt=operator.gt, ge=operator.ge, lt=operator.lt, le=operator.le, ne=operator.ne, eq=operator.eq)


def expr_leaves(t, out):
    if t[0] in ("var", "local", "reg", "field", "hash"):
        out.append(t)
    elif t[0] == "bin":
        expr_leaves(t[2], out)
        expr_leaves(t[3], out)
    elif t[0] in ("neg", "abs"):
        expr_leaves(t[1], out)


def cond_leaves(c, out):
    if c[0] == "cmp":
        expr_leaves(c[2], out)
        expr_leaves(c[3], out)
    elif c[0] == "truth":
        expr_leaves(c[1], out)
    elif c[0] == "not":
        cond_leaves(c[1], out)
    else:
        cond_leaves(c[1], out)
        cond_leaves(c[2], out)


def stmt_leaves(stmts, out, marks):
    for s in stmts:
        if s[0] == "mark":
            marks.append(s[1])
        elif s[0] == "exit":
            pass
        else:
            cond_leaves(s[1], out)
            stmt_leaves(s[2], out, marks)
            if s[3] is not None:
                stmt_leaves(s[3], out, marks)


def expr_depth(t):
    if t[0] == "bin":
        return 1 + max(expr_depth(t[2]), expr_depth(t[3]))
    if t[0] in ("neg", "abs"):
        return 1 + expr_depth(t[1])
    return 0


def cond_depth(c):
    if c[0] == "cmp":
        return max(expr_depth(c[2]), expr_depth(c[3]))
    if c[0] == "truth":
        return expr_depth(c[1])
    if c[0] == "not":
        return cond_depth(c[1])
    return max(cond_depth(c[1]), cond_depth(c[2]))


def stmts_depth(stmts):
    d = 0
    for s in stmts:
        if s[0] == "with":
            d = max(d, cond_depth(s[1]), stmts_depth(s[2]), stmts_depth(s[3] or []))
    return d


def program(stmts, use_kernel=False, scope=None):
    """scope: None, or the name of a temporary ("tmp", "stmp") inside whose block the statements are placed"""
    from ebpfcat.xdp import XDP, XDPExitCode
    from ebpfcat.arraymap import ArrayMap
    from ebpfcat.hashmap import HashMap, HashGlobalVarDesc
    from ebpfcat.ebpf import LocalVar, Expression, Comparison

    leaves, marks = [], []
    stmt_leaves(stmts, leaves, marks)
    if len([x for x in leaves if x[0] == "reg"]) > len(OPERAND_REGS):
        raise NotGenerated("too many register operands")
    m = ArrayMap()
    ns = dict(license="GPL", m=m)
    slot, regno = {}, {}
    hm = HashMap() if any(lf[0] == "hash" for lf in leaves) else None
    if hm is not None:
        ns["hm"] = hm
    for i, lf in enumerate(leaves):
        slot[id(lf)] = i
        if lf[0] == "hash":
            ns[f"in{i}"] = hm.globalVar(lf[1])
        elif lf[0] == "reg":
            ns[f"in{i}"] = m.globalVar(REG_SRC_FMT[lf[1]])
            regno[i] = OPERAND_REGS[len(regno)]
        elif lf[0] == "field":
            ns[f"in{i}"] = m.globalVar((lf[1], lf[2]))
        else:
            ns[f"in{i}"] = m.globalVar(lf[1])
            if lf[0] == "local":
                ns[f"loc{i}"] = LocalVar(lf[1])
    for i in marks:
        ns[f"mk{i}"] = m.globalVar("B")
    n = 8 * 2 ** stmts_depth(stmts) + 1

    def expr(self, t):
        if t[0] in ("var", "field", "hash"):
            return getattr(self, f"in{slot[id(t)]}")
        if t[0] == "local":
            return getattr(self, f"loc{slot[id(t)]}")
        if t[0] == "reg":
            return getattr(self, t[1])[regno[slot[id(t)]]]
        if t[0] == "const":
            return t[1]
        if t[0] == "neg":
            return -expr(self, t[1])
        if t[0] == "abs":
            return abs(expr(self, t[1]))
        return OPS[t[1]](expr(self, t[2]), expr(self, t[3]))

    def cond(self, c, top):
        if c[0] == "cmp":
            r = CMP[c[1]](expr(self, c[2]), expr(self, c[3]))
        elif c[0] == "truth":
            e = expr(self, c[1])
            if not isinstance(e, Expression):
                raise NotGenerated("constant used as a condition")
            r = e if top else (e != 0)
        elif c[0] == "not":
            r = ~cond(self, c[1], False)
        elif c[0] == "and":
            r = cond(self, c[1], False) & cond(self, c[2], False)
        else:
            r = cond(self, c[1], False) | cond(self, c[2], False)
        if not isinstance(r, (Expression, Comparison)):
            raise NotGenerated(f"condition evaluated to {r!r} while building")
        return r

    def emit(self, ss):
        for s in ss:
            if s[0] == "mark":
                setattr(self, f"mk{s[1]}", 1)
            elif s[0] == "exit":                     # the program ends here: nothing after it may run
                self.exit(XDPExitCode.PASS)
            elif s[3] is None:
                with cond(self, s[1], True):
                    emit(self, s[2])
            else:
                with cond(self, s[1], True) as Else:
                    emit(self, s[2])
                with Else:
                    emit(self, s[3])

    def prog(self):
        for i, lf in enumerate(leaves):
            if lf[0] == "local":
                setattr(self, f"loc{i}", getattr(self, f"in{i}"))
            elif lf[0] == "reg":
                getattr(self, lf[1])[regno[i]] = getattr(self, f"in{i}")
        if scope is None:
            emit(self, stmts)
        else:
            with getattr(self, scope):
                setattr(self, scope, 1)
                emit(self, stmts)
        self.exit(XDPExitCode.PASS)
    ns["program"] = prog
    cls = type("CondProg", (XDP,), ns)
    try:
        b = progs.build(cls, use_kernel=use_kernel)
    except NotGenerated:
        raise
    except Exception as ex:
        raise NotGenerated(f"{type(ex).__name__}: {ex}")
    inst = b.inst

    hfd = next((j + 1 for j, mm in enumerate(b.maps) if mm["type"] == "hash"), 0)
    if next(j + 1 for j, mm in enumerate(b.maps) if mm["type"] == "array") != 1:
        raise NotGenerated("the array map is expected to be map 1")
    keyof = lambda name: type(inst).__dict__[name].count

    def east(t):
        if t[0] == "hash":
            return dict(k="var", fmt=t[1], fd=hfd, off=keyof(f"in{slot[id(t)]}"))
        if t[0] in ("var", "local"):
            return dict(k="var", fmt=t[1], fd=1, off=inst.__dict__[f"in{slot[id(t)]}"])
        if t[0] == "reg":
            return dict(k="reg", kind=t[1], fd=1, off=inst.__dict__[f"in{slot[id(t)]}"])
        if t[0] == "field":
            return dict(k="field", pos=t[1], bits=t[2], fd=1, off=inst.__dict__[f"in{slot[id(t)]}"])
        if t[0] == "const":
            return dict(k="const", v=word(t[1], n))
        if t[0] in ("neg", "abs"):
            return dict(k=t[0], a=east(t[1]))
        return dict(k="bin", op=t[1], l=east(t[2]), r=east(t[3]))

    def cast(c):
        if c[0] == "cmp":
            return dict(k="cmp", op=c[1], l=east(c[2]), r=east(c[3]))
        if c[0] == "truth":
            return dict(k="truth", e=east(c[1]))
        if c[0] == "not":
            return dict(k="not", a=cast(c[1]))
        return dict(k=c[0], l=cast(c[1]), r=cast(c[2]))

    def sast(ss):
        out = []
        for s in ss:
            if s[0] == "mark":
                out.append(dict(k="mark", i=s[1]))
            elif s[0] == "exit":
                out.append(dict(k="exit"))
            else:
                out.append(dict(k="with", c=cast(s[1]), body=sast(s[2]), hasels=s[3] is not None,
                                els=sast(s[3] or [])))
        return out

    leafrecs, inputs = [], []
    for i, lf in enumerate(leaves):
        fmt = REG_SRC_FMT[lf[1]] if lf[0] == "reg" else ("B" if lf[0] == "field" else lf[1])
        if lf[0] == "hash":
            key = keyof(f"in{i}")
            leafrecs.append(dict(fd=hfd, off=key, len=FMT_SIZE[fmt], key=[key]))
            inputs.append((("hash", key), FMT_SIZE[fmt], fmt.islower()))
            continue
        off = inst.__dict__[f"in{i}"]
        leafrecs.append(dict(fd=1, off=off, len=FMT_SIZE[fmt]))
        inputs.append((off, FMT_SIZE[fmt], fmt.islower()))
    markrecs = [dict(i=i, fd=1, off=inst.__dict__[f"mk{i}"]) for i in marks]
    return dict(built=b, stmts=sast(stmts), leaves=leafrecs, marks=markrecs, n=n, inputs=inputs,
                mapsize=b.maps[0]["vs"], nleaves=len(leaves), hfd=hfd,
                hashkeys=sorted({v.count for v in ns.values() if isinstance(v, HashGlobalVarDesc)}))


def case(pg, values):
    buf = bytearray(pg["mapsize"])
    hv = {k: bytes(8) for k in pg.get("hashkeys", ())}
    for (off, size, _), v in zip(pg["inputs"], values):
        if isinstance(off, tuple):
            hv[off[1]] = bytes(word(v, size)) + bytes([0xA5] * (8 - size))
        else:
            buf[off:off + size] = bytes(word(v, size))
    c = progs.case(pg["built"], arr={1: bytes(buf)},
                   hashes=[(pg["hfd"], bytes([k]), v) for k, v in sorted(hv.items())])
    c.update(stmts=pg["stmts"], leaves=pg["leaves"], marks=pg["marks"], n=pg["n"],
             ast=dict(k="const", v=word(0, pg["n"])), dst=dict(fd=1, off=0, size=1))
    return c
