"""A simulated EtherCAT segment for the real `ebpfcat.ethercat.EtherCat` object.

The real EtherCat instance keeps its own `sendloop`, `process_packet`, `roundtrip_packet`,
`datagram_received`; only the transport is replaced: `SimTransport.sendto(frame, addr)` parses
the frame (independent parser, not ebpfcat's Packet), lets every simulated terminal process its
datagrams with EtherCAT working-counter rules, and delivers the response through
`ec.datagram_received` after a (virtual) delay, or loses / duplicates it as the policy says.
Everything that happens is appended to `bus.log` as JSON-serialisable events.

Terminals are register files with handlers:  AL state machine (0x120/0x130), SII EEPROM
interface (0x502..0x50F), FMMUs (0x600..), sync-manager mailboxes (0x800..), station address
(0x10), FMMU count (0x04).  Behaviour that a property quantifies over (delays, errors, busy
durations, mailbox servers) is injected through small policy objects so that TLC-generated
scripts can drive it.
"""
import asyncio
import struct

NOP, APRD, APWR, APRW, FPRD, FPWR, FPRW, BRD, BWR, BRW, LRD, LWR, LRW, ARMW, FRMW = range(15)
READS = {APRD, FPRD, BRD, LRD}
WRITES = {APWR, FPWR, BWR, LWR}
RWS = {APRW, FPRW, BRW, LRW}


def parse_frame(frame):
    """-> dict(length, type, dgrams=[dict(cmd, idx, adp, ado, laddr, len, more, irq, data, wkc, pos)])
    pos = offset of the datagram's data in the frame (no Ethernet header)"""
    hdr, = struct.unpack_from("<H", frame, 0)
    out = dict(length=hdr & 0x7ff, type=hdr >> 12, dgrams=[])
    p = 2
    more = True
    while more and p + 10 <= len(frame):
        cmd, idx, adp, ado, ln, irq = struct.unpack_from("<BBHHHH", frame, p)
        laddr, = struct.unpack_from("<I", frame, p + 2)
        n = ln & 0x7ff
        more = bool(ln & 0x8000)
        data = bytes(frame[p + 10:p + 10 + n])
        wkc, = struct.unpack_from("<H", frame, p + 10 + n)
        out["dgrams"].append(dict(cmd=cmd, idx=idx, adp=adp, ado=ado, laddr=laddr, len=n,
                                  more=more, irq=irq, data=data, wkc=wkc, pos=p + 10,
                                  circ=bool(ln & 0x4000)))
        p += 12 + n
    out["end"] = p
    return out


def frame_index(frame):
    return struct.unpack_from("<I", frame, 4)[0]


class SimTerminal:
    """one EtherCAT slave controller: 64 kB register/memory space plus handlers"""

    def __init__(self, name="T", fmmus=4, station=0):
        self.name = name
        self.mem = bytearray(0x10000)
        self.mem[4] = fmmus
        struct.pack_into("<H", self.mem, 0x10, station)
        self.handlers = []          # (start, stop, reader(off, n)->bytes|None, writer(off, data)->bool|None)
        self.accesses = []          # log of (kind, off, bytes)
        self.log_accesses = False
        self.present = True         # a terminal that is not present never processes anything
        # AL
        self.al_state = 1
        self.al_err = False
        self.al_status_code = 0
        self.al_policy = None       # callable(term, requested, ack) -> None  (default: immediate)
        self.al_requests = []
        self.add_handler(0x120, 0x122, None, self._al_write)
        self.add_handler(0x130, 0x136, self._al_read, None)
        # SII
        self.eeprom = None          # bytes image or None
        self.sii_8byte = True
        self.sii_busy = None        # callable() -> int polls to stay busy after a read command
        self._sii_busy_left = 0
        self._sii_addr = 0
        self.add_handler(0x502, 0x510, self._sii_read, self._sii_write)
        # mailbox
        self.mbx_server = None      # callable(term, mail bytes) -> None ; puts replies via term.mbx_post()
        self.mbx_in_queue = []
        self._mbx_in_current = None
        self.add_handler(0x800, 0x880, self._sm_read, None)

    # ---- handlers -----------------------------------------------------------------------
    def add_handler(self, start, stop, reader, writer):
        self.handlers.insert(0, (start, stop, reader, writer))

    @property
    def station(self):
        return struct.unpack_from("<H", self.mem, 0x10)[0]

    def read(self, off, n):
        data = bytearray(self.mem[off:off + n])
        for start, stop, reader, _ in self.handlers:
            if reader is not None and off < stop and off + n > start:
                r = reader(off, n)
                if r is not None:
                    data = bytearray(r)
                    break
        self._mbx_after_read(off, n)
        if self.log_accesses:
            self.accesses.append(("r", off, bytes(data)))
        return bytes(data)

    def write(self, off, data):
        if self.log_accesses:
            self.accesses.append(("w", off, bytes(data)))
        for start, stop, _, writer in self.handlers:
            if writer is not None and off < stop and off + len(data) > start:
                if writer(off, data):
                    return
        self.mem[off:off + len(data)] = data
        self._mbx_after_write(off, len(data))

    # ---- AL -------------------------------------------------------------------------------
    def _al_write(self, off, data):
        if off != 0x120:
            return False
        val = data[0] | (data[1] << 8 if len(data) > 1 else 0)
        req, ack = val & 0xf, bool(val & 0x10)
        self.al_requests.append((req, ack))
        if self.al_policy is not None:
            self.al_policy(self, req, ack)
        else:
            if ack:
                self.al_err = False
            self.al_state = req
        return True

    def _al_read(self, off, n):
        if self.al_policy is not None and hasattr(self.al_policy, "poll"):
            self.al_policy.poll(self)
        regs = struct.pack("<HHH", self.al_state | (0x10 if self.al_err else 0), 0,
                           self.al_status_code)
        res = bytearray(self.mem[off:off + n])
        for i in range(n):
            a = off + i
            if 0x130 <= a < 0x136:
                res[i] = regs[a - 0x130]
        return bytes(res)

    # ---- SII ------------------------------------------------------------------------------
    def _sii_write(self, off, data):
        if off == 0x502 and len(data) >= 6:
            ctl, addr = struct.unpack_from("<HI", data, 0)
            self._sii_addr = addr
            if ctl & 0x100:   # read command
                self._sii_busy_left = self.sii_busy() if self.sii_busy else 0
            self.mem[0x504:0x508] = data[2:6]
            return True
        return False

    def _sii_read(self, off, n):
        busy = self._sii_busy_left > 0
        if busy:
            self._sii_busy_left -= 1
        status = (0x8000 if busy else 0) | (0x40 if self.sii_8byte else 0)
        img = self.eeprom or b""
        a = self._sii_addr * 2
        width = 8 if self.sii_8byte else 4
        word = bytes(img[a:a + width]).ljust(width, b"\xff") if not busy else bytes(width)
        word = word.ljust(8, b"\0")
        regs = struct.pack("<HI", status, self._sii_addr) + word      # 0x502 .. 0x510
        res = bytearray(self.mem[off:off + n])
        for i in range(n):
            a2 = off + i
            if 0x502 <= a2 < 0x510:
                res[i] = regs[a2 - 0x502]
        return bytes(res)

    # ---- sync-manager mailboxes ---------------------------------------------------------
    def sm(self, i):
        start, length, ctl = struct.unpack_from("<HHB", self.mem, 0x800 + 8 * i)
        return start, length, ctl

    def mailboxes(self):
        out = inn = None
        for i in range(4):
            start, length, ctl = self.sm(i)
            if length and (ctl & 0x3) == 2:       # mailbox mode
                if ctl & 0x0c == 4 and out is None:   # written by master
                    out = (i, start, length)
                elif ctl & 0x0c == 0 and inn is None:  # read by master
                    inn = (i, start, length)
        return out, inn

    def _sm_read(self, off, n):
        res = bytearray(self.mem[off:off + n])
        out, inn = self.mailboxes()
        for i in range(n):
            a = off + i
            if out and a == 0x800 + 8 * out[0] + 5:
                res[i] = 0          # the simulated slave always empties its receive mailbox at once
            if inn and a == 0x800 + 8 * inn[0] + 5:
                self._mbx_load()
                res[i] = 8 if self._mbx_in_current is not None else 0
        return bytes(res)

    def _mbx_load(self):
        out, inn = self.mailboxes()
        if self._mbx_in_current is None and self.mbx_in_queue and inn:
            mail = self.mbx_in_queue.pop(0)
            self._mbx_in_current = mail
            _, start, length = inn
            self.mem[start:start + length] = bytes(mail[:length]).ljust(length, b"\0")

    def mbx_post(self, mail):
        """queue a mail (full mailbox message incl. 6-byte header) for the master to read"""
        self.mbx_in_queue.append(bytes(mail))

    def _mbx_after_write(self, off, n):
        out, inn = self.mailboxes()
        if out:
            _, start, length = out
            if off <= start + length - 1 < off + n:       # last byte written: mail complete
                mail = bytes(self.mem[start:start + length])
                if self.mbx_server is not None:
                    self.mbx_server(self, mail)

    def _mbx_after_read(self, off, n):
        out, inn = self.mailboxes()
        if inn and self._mbx_in_current is not None:
            _, start, length = inn
            if off <= start + length - 1 < off + n:       # last byte read: mailbox free again
                self._mbx_in_current = None

    # ---- FMMU -----------------------------------------------------------------------------
    def fmmus(self):
        out = []
        for i in range(self.mem[4]):
            lstart, length, lsb, leb, pstart, psb, typ, act = \
                struct.unpack_from("<IHBBHBBB", self.mem, 0x600 + 16 * i)
            if act & 1:
                out.append(dict(i=i, logical=lstart, length=length, phys=pstart, type=typ))
        return out


class SimBus:
    def __init__(self, terminals):
        self.terminals = list(terminals)
        self.log = []
        self.frames = 0

    def process(self, frame):
        """one trip of the frame through all terminals; returns the frame as it comes back"""
        self.frames += 1
        frame = bytearray(frame)
        pf = parse_frame(frame)
        for d in pf["dgrams"]:
            cmd = d["cmd"]
            data = bytearray(d["data"])
            wkc = d["wkc"]
            adp = d["adp"]
            for k, t in enumerate(self.terminals):
                if not t.present:
                    continue
                if cmd in (APRD, APWR, APRW):
                    hit = ((d["adp"] + k) & 0xffff) == 0
                    adp = (adp + 1) & 0xffff
                elif cmd in (FPRD, FPWR, FPRW):
                    hit = t.station == d["adp"] and t.station != 0
                elif cmd in (BRD, BWR, BRW):
                    hit = True
                    adp = (adp + 1) & 0xffff
                elif cmd in (LRD, LWR, LRW):
                    wkc += self._logical(t, cmd, d["laddr"], data)
                    continue
                else:
                    hit = False
                if not hit:
                    continue
                if cmd in READS or cmd in RWS:
                    r = t.read(d["ado"], d["len"])
                    if cmd == BRD or cmd == BRW:
                        data = bytearray(a | b for a, b in zip(data, r))
                    else:
                        rd = bytearray(r)
                    wkc += 1
                if cmd in WRITES or cmd in RWS:
                    t.write(d["ado"], bytes(d["data"]))
                    wkc += 2 if cmd in RWS else 1
                if cmd in (APRD, FPRD, APRW, FPRW):
                    data = rd
            p = d["pos"]
            frame[p:p + d["len"]] = data
            struct.pack_into("<H", frame, p + d["len"], wkc & 0xffff)
            if cmd in (APRD, APWR, APRW, BRD, BWR, BRW):
                struct.pack_into("<H", frame, p - 8, adp)
        return bytes(frame)

    def _logical(self, t, cmd, laddr, data):
        inc = 0
        for f in t.fmmus():
            lo = max(laddr, f["logical"])
            hi = min(laddr + len(data), f["logical"] + f["length"])
            if lo >= hi:
                continue
            n = hi - lo
            phys = f["phys"] + (lo - f["logical"])
            if f["type"] & 1 and cmd in (LRD, LRW):
                data[lo - laddr:hi - laddr] = t.read(phys, n)
                inc += 1
            if f["type"] & 2 and cmd in (LWR, LRW):
                t.write(phys, bytes(data[lo - laddr:hi - laddr]))
                inc += 2 if cmd == LRW else 1
        return inc


class SimTransport:
    """stands in for the AF_PACKET datagram transport of EtherCat"""

    def __init__(self, bus, ec, policy=None):
        self.bus = bus
        self.ec = ec
        self.policy = policy       # callable(frame, parsed) -> list of ("return", delay) | ("lose",) ...
        self.sent = []

    def sendto(self, frame, addr=None):
        frame = bytes(frame)
        self.sent.append(frame)
        loop = asyncio.get_event_loop()
        actions = self.policy(frame) if self.policy else [("return", 0.0)]
        for act in actions:
            if act[0] == "lose":
                continue
            resp = self.bus.process(frame) if act[0] != "raw" else act[2]
            delay = act[1]
            if delay <= 0:
                loop.call_soon(self.ec.datagram_received, resp, addr)
            else:
                loop.call_later(delay, self.ec.datagram_received, resp, addr)

    def close(self):
        pass


def attach(ec, bus, policy=None):
    """wire a real EtherCat object to the simulated bus and start its real send loop.
    must be called inside a running event loop; returns (transport, sendloop task)"""
    ec.send_queue = asyncio.Queue()
    tr = SimTransport(bus, ec, policy)
    ec.transport = tr
    task = asyncio.ensure_future(ec.sendloop())
    return tr, task
