"""Real sync groups of the bundled devices (ebpfcat.devices) without hardware, for X07.

A configuration is pure data:
    dict(terms=[dict(position, fmmu, insz, outsz)],
         devs=[dict(kind, term, off, what)            ai / di (IN area), ao / do / ro (OUT area)
               | dict(kind="ctr") | dict(kind="drop") | dict(kind="dummy", terms=[i, ...])])
`build(cfg, path)` makes the REAL objects (Generic terminals with hand-written PDO sizes, PacketVars,
the devices of ebpfcat.devices, a real SyncGroup or FastSyncGroup with the real allocate / assemble)
and reports WHERE everything lives: the positions of the process variables are found by parsing
the assembled frame (not read from pdo_assign), the DeviceVar offsets / formats from the real
declarations.  `slow_trace` / `fast_trace` drive the real code through a list of steps and record
what it did, in the event format of spec/DevicesTrace.tla; `machine_case` packages one cycle of the
emitted program for spec/DevicesRun.tla."""
import json
import logging
import os
import threading

from . import kernel, progs, pvgroup as FG, tlc as T

FMT = {"B": (1, 0), "H": (2, 0), "I": (4, 0), "Q": (8, 0), "b": (1, 1), "h": (2, 1), "i": (4, 1), "q": (8, 1),
       "?": (1, 0)}
VARS = {"ai": ["value"], "ao": ["value"], "di": ["value"], "do": ["value"], "ro": ["seed", "value"],
        "ctr": ["count", "lasttime", "maxtime", "squared"], "drop": ["rate"], "dummy": []}
IN_KINDS, OUT_KINDS = ("ai", "di"), ("ao", "do", "ro")
LRD, LWR, FPRD, FPWR = 10, 11, 4, 5
N = 16
NOVAR = dict(start=0, off=0, bit=-1, n=1, s=0)


def word(v, n=N):
    return list((int(v) % (1 << (8 * n))).to_bytes(n, "little"))


def unword(w):
    v = int.from_bytes(bytes(w), "little")
    return v - (1 << (8 * len(w))) if w[-1] >= 128 else v


def pyword(v):
    """a Python value a user sees in a device variable, as a word; anything but an integer is no word"""
    return word(int(v)) if isinstance(v, (bool, int)) else [-1] * N


class Rig:
    pass


def _classes():
    from ebpfcat import devices as dv
    return {"ai": dv.AnalogInput, "ao": dv.AnalogOutput, "di": dv.DigitalInput, "do": dv.DigitalOutput,
            "ro": dv.RandomOutput, "ctr": dv.Counter, "drop": dv.RandomDropper, "dummy": dv.Dummy}


def regions(cfg, frame):
    """start (0-based, in the frame without Ethernet header) of every (terminal, "IN" | "OUT") region,
    from the frame itself: direct datagrams are found by their address, the shared logical datagrams
    are divided in the order of the terminals' positions"""
    dgs = FG.datagrams(frame)
    used = {d["term"] for d in cfg["devs"] if "term" in d}
    for d in cfg["devs"]:
        used |= set(d.get("terms", ()))
    rw = {d["term"] for d in cfg["devs"] if d["kind"] in OUT_KINDS}
    out, cum = {}, {"IN": 0, "OUT": 0}
    for i in sorted(used, key=lambda i: cfg["terms"][i]["position"]):
        t = cfg["terms"][i]
        for sm, size, addr, cmd_l, cmd_d in (("IN", t["insz"], 0x1100 + 0x40 * i, LRD, FPRD),
                                            ("OUT", t["outsz"], 0x1000 + 0x40 * i, LWR, FPWR)):
            if not size or (sm == "OUT" and i not in rw):
                continue
            if t["fmmu"]:
                (d,) = [d for d in dgs if d[0] == cmd_l]
                out[i, sm] = d[2] + cum[sm]
                cum[sm] += size
            else:
                (d,) = [d for d in dgs if d[0] == cmd_d
                        and int.from_bytes(frame[d[1] + 2:d[1] + 4], "little") == t["position"]
                        and int.from_bytes(frame[d[1] + 4:d[1] + 6], "little") == addr]
                if d[3] != size:
                    raise T.MachineryError(f"datagram of terminal {i} {sm} has {d[3]} bytes, not {size}")
                out[i, sm] = d[2]
    return out, dgs


def build(cfg, path):
    """-> Rig (real objects + layout), or raises what the real classes raise"""
    from ebpfcat.ebpfcat import PacketVar
    from ebpfcat.ethercat import SyncManager
    from ebpfcat.terminals import Generic
    cls = _classes()
    ec = FG.simple_ec()
    terms = []
    for i, t in enumerate(cfg["terms"]):
        o = Generic(ec)
        o.position = t["position"]
        o.use_fmmu = t["fmmu"]
        o.pdo_in_sz, o.pdo_in_off = t["insz"] or None, 0x1100 + 0x40 * i
        o.pdo_out_sz, o.pdo_out_off = t["outsz"] or None, 0x1000 + 0x40 * i
        o.name = f"t{i}"
        terms.append(o)
    devs = []
    for d in cfg["devs"]:
        k = d["kind"]
        if k in IN_KINDS + OUT_KINDS:
            sm = SyncManager.IN if k in IN_KINDS else SyncManager.OUT
            devs.append(cls[k](PacketVar(terms[d["term"]], sm, d["off"], d["what"])))
        elif k == "dummy":
            devs.append(cls[k]([terms[i] for i in d["terms"]]))
        else:
            devs.append(cls[k]())
    r = Rig()
    r.cfg, r.path, r.ec, r.terms, r.devs = cfg, path, ec, terms, devs
    if path == "fast":
        r.built = FG.build_fast(ec, devs)
        r.sg = sg = r.built.inst
        sg.loaded = True                                     # what EBPF.load() does after PROG_LOAD
        sg.asm_packet = sg.packet.sterile(cfg.get("index", 5))
        r.frame = bytes(sg.packet.assemble(cfg.get("index", 5)))
        r.wkc = dict(off=sg.__dict__["wkc_errors"], n=4)
        r.props_size = r.built.maps[-1]["vs"]
        r.props_fd = r.built.maps[-1]["fd"]
    else:
        r.sg = sg = FG.build_slow(ec, devs)
        sg.wkc_errors = 0
        r.frame = bytes(sg.asm_packet)
        r.wkc = dict(off=0, n=0)
    reg, dgs = regions(cfg, r.frame)
    r.dgs = dgs
    r.free = sorted({p for d in dgs for p in (d[1], d[4], d[4] + 1)})
    r.counters = dict(sg.packet.counters)
    r.tla_devs = []
    for d, o in zip(cfg["devs"], devs):
        k = d["kind"]
        if k in IN_KINDS + OUT_KINDS:
            w = d["what"]
            n, s = (1, 0) if isinstance(w, int) else FMT[w]
            data = dict(start=reg[d["term"], "IN" if k in IN_KINDS else "OUT"], off=d["off"],
                        bit=w if isinstance(w, int) else -1, n=n, s=s)
        else:
            data = dict(NOVAR)
        if path == "fast":
            dv = [dict(off=o.__dict__[name], n=FMT[getattr(type(o), name).fmt][0],
                       s=FMT[getattr(type(o), name).fmt][1]) for name in VARS[k]]
            fm = [dict(n=v["n"], s=v["s"]) for v in dv]
        else:
            dv, fm = [], [dict(n=0, s=0) for _ in VARS[k]]
        r.tla_devs.append(dict(kind=k, data=data, fm=fm, dv=dv))
    r.ingroup = [t in sg.terminals for t in terms]
    return r


def close(r):
    if r.path == "fast" and kernel.available():
        for m in r.built.maps:
            try:
                os.close(m["fd"])
            except OSError:
                pass
        if getattr(r, "prog_fd", None) is not None:
            os.close(r.prog_fd)
            r.prog_fd = None


# ---- frames -------------------------------------------------------------------------------------

def make_frame(r, fill, values=None, index_byte=1):
    """the group's frame with every datagram's data area filled by fill(n) -> bytes, the working
    counters as a fully successful round trip returns them, then the linked variables in `values`
    ({device number: integer}) put in place"""
    f = bytearray(r.frame)
    for d in r.dgs[1:]:
        f[d[2]:d[2] + d[3]] = fill(d[3])
    for pos, cnt in r.counters.items():
        f[pos:pos + 2] = cnt.to_bytes(2, "little")
    f[3] = index_byte
    for i, v in (values or {}).items():
        put_var(f, r.tla_devs[i]["data"], v)
    return bytes(f)


def put_var(buf, var, v):
    p = var["start"] + var["off"]
    if var["bit"] >= 0:
        buf[p] = (buf[p] & ~(1 << var["bit"])) | (bool(v) << var["bit"])
    else:
        buf[p:p + var["n"]] = (int(v) % (1 << (8 * var["n"]))).to_bytes(var["n"], "little")


def put_dv(buf, dv, v):
    buf[dv["off"]:dv["off"] + dv["n"]] = (int(v) % (1 << (8 * dv["n"]))).to_bytes(dv["n"], "little")


# ---- the machine: one cycle of the emitted program ------------------------------------------------

def machine_case(r, frame, props, nows, eth=bytes(FG.ETH), fuel=2500):
    c = progs.case(r.built, pkt=bytes(eth) + bytes(frame), arr={len(r.built.maps): bytes(props)},
                   orc=[word(t, 8) for t in nows], fuel=fuel)
    c["d"] = dict(fd=len(r.built.maps), devs=r.tla_devs, free=[FG.ETH + p for p in r.free], wkc=r.wkc)
    return c


# ---- recorded runs of the real code -----------------------------------------------------------------

def _vals(r):
    return [[pyword(getattr(o, name)) for name in VARS[d["kind"]]] for d, o in zip(r.cfg["devs"], r.devs)]


def _user_step(r, st, props):
    """set / prob / get on the real device objects; props() -> the map bytes (fast) or []"""
    o = r.devs[st["d"]]
    names = VARS[r.cfg["devs"][st["d"]]["kind"]]
    if st["op"] == "set":
        ev = dict(op="set", d=st["d"] + 1, j=st["j"] + 1, val=word(st["val"]), raised=False)
        try:
            setattr(o, names[st["j"]], st["val"])
        except Exception as e:
            ev.update(raised=True, error=f"{type(e).__name__}: {e}"[:120])
        ev["pb"] = props()
        return ev
    if st["op"] == "prob":
        ev = dict(op="prob", d=st["d"] + 1, num=st["num"], den=st["den"], raised=False)
        try:
            o.probability = st["num"] / st["den"]
        except Exception as e:
            ev.update(raised=True, error=f"{type(e).__name__}: {e}"[:120])
        ev["pb"] = props()
        return ev
    ev = dict(op="get", d=st["d"] + 1, j=st["j"] + 1, val=[-1] * N, raised=False)
    try:
        ev["val"] = pyword(getattr(o, names[st["j"]]))
    except Exception as e:
        ev.update(raised=True, error=f"{type(e).__name__}: {e}"[:120])
    return ev


def slow_trace(r, steps):
    """steps: user steps and dict(op="cycle", frame=bytes).  The real SyncGroup.update_devices runs on
    every cycle's frame.  A cycle that raises ends the run (SyncGroupBase.run would end there too)."""
    tr = dict(path="slow", devs=r.tla_devs, free=r.free, wkc=r.wkc, pb0=[], vs0=_vals(r), ev=[])
    logging.disable(logging.CRITICAL)
    try:
        for st in steps:
            if st["op"] != "cycle":
                tr["ev"].append(_user_step(r, st, lambda: []))
                continue
            ev = dict(op="cycle", inp=list(st["frame"]), raised="")
            try:
                r.sg.update_devices(bytearray(st["frame"]))
            except Exception as e:
                ev["raised"] = f"{type(e).__name__}: {e}"[:120]
            ev["out"] = list(r.sg.current_data)
            ev["vs"] = _vals(r)
            tr["ev"].append(ev)
            if ev["raised"]:
                break
    finally:
        logging.disable(logging.NOTSET)
    return tr


def fast_trace(r, steps, props0):
    """steps: user steps, dict(op="run", frame=, eth=) (kernel, skipped without one) and
    dict(op="update", frame=) (the real FastSyncGroup.update_devices in user space)"""
    sg = r.sg

    def props():
        return list(bytes(sg.properties))

    sg.properties[:] = bytes(props0)
    sg.current_data = None
    tr = dict(path="fast", devs=r.tla_devs, free=r.free, wkc=r.wkc, pb0=props(), vs0=[], ev=[])
    for st in steps:
        if st["op"] in ("set", "prob", "get"):
            tr["ev"].append(_user_step(r, st, props))
        elif st["op"] == "run":
            if not kernel.available():
                continue
            if getattr(r, "prog_fd", None) is None:
                r.prog_fd = kernel.prog_load(r.built.code)
            pkt = bytes(st["eth"]) + bytes(st["frame"])
            rv, out = kernel.test_run(r.prog_fd, pkt)
            tr["ev"].append(dict(op="run", pkt=list(pkt), rv=rv, out=list(out), pb=props()))
        elif st["op"] == "update":
            ev = dict(op="update", data=list(st["frame"]), raised="")
            try:
                sg.update_devices(bytearray(st["frame"]))
            except Exception as e:
                ev["raised"] = f"{type(e).__name__}: {e}"[:120]
            ev["pb"] = props()
            tr["ev"].append(ev)
        else:
            raise T.MachineryError(f"unknown step {st}")
    return tr


# ---- TLC ---------------------------------------------------------------------------------------------

def run_cases(ctx, cases, shards=1, workers=4, timeout=1500):
    """DevicesRunPar over all machine cases: `shards` TLC processes with `workers` workers each (the
    verdict of a case is computed in a step, so the workers share the cases of a process).
    -> {1-based case number: [record, ...]} of the VERDICT records"""
    if not cases:
        return {}
    wd = ctx.workdir()
    shards = max(1, min(shards, len(cases)))
    size = (len(cases) + shards - 1) // shards
    parts = [(s, cases[s:s + size]) for s in range(0, len(cases), size)]
    results, errors = {}, []

    def work(start, part):
        try:
            path = os.path.join(wd, f"cases_{start}.json")
            with open(path, "w") as f:
                json.dump(part, f)
            res = T.run(wd, "DevicesRunPar", "DevicesRunPar.cfg", workers=workers, timeout=timeout, deadlock=False,
                        env={"TRACE_FILE": path})
            if res.error:
                raise T.MachineryError(f"DevicesRunPar failed:\n{res.error[:3000]}\n{res.out[-1500:]}")
            results[start] = (res, T.printed_records(res, "VERDICT"))
            os.remove(path)
        except BaseException as e:
            errors.append(e)

    ths = [threading.Thread(target=work, args=p) for p in parts]
    for t in ths:
        t.start()
    for t in ths:
        t.join()
    if errors:
        raise errors[0]
    out = {}
    for start, (res, recs) in sorted(results.items()):
        ctx.tlc_stats(res)
        for r in recs:
            out.setdefault(start + r[0], []).append(r[1:])
    return out


def validate(ctx, traces, chunk=60, threads=6, timeout=900):
    """DevicesTrace over all traces, in parallel single-worker TLC processes.
    -> ([(matched, length)], {trace number: {(event number, class)}}, {trace number: {event number: law demanded}})"""
    parts = [(s, traces[s:s + chunk]) for s in range(0, len(traces), chunk)]
    wd = ctx.workdir()
    results, obs, notes, errors, stats = {}, {}, {}, [], []
    sem = threading.Semaphore(threads)

    def one(start, part):
        with sem:
            try:
                path = os.path.join(wd, f"traces_{start}.json")
                with open(path, "w") as f:
                    json.dump(part, f)
                res = T.run(wd, "DevicesTrace", "DevicesTrace.cfg", workers=1, timeout=timeout, deadlock=False,
                            env={"TRACE_FILE": path})
                if res.error:
                    raise T.MachineryError(f"DevicesTrace failed:\n{res.error}\n{res.out[-2000:]}")
                recs = {x[0]: (x[1], x[2]) for x in T.printed_records(res, "RESULT")}
                if len(recs) != len(part):
                    raise T.MachineryError(f"DevicesTrace: {len(recs)} results for {len(part)} traces\n{res.out[-2000:]}")
                for i in range(len(part)):
                    results[start + i] = recs[i + 1]
                for i, l, c in T.printed_records(res, "OBS"):
                    obs.setdefault(start + i - 1, set()).add((l, c))
                for i, l, a in T.printed_records(res, "NOTE"):
                    d = notes.setdefault(start + i - 1, {})
                    d[l] = d.get(l, False) or bool(a)
                stats.append(res)
                os.remove(path)
            except BaseException as e:
                errors.append(e)

    ths = [threading.Thread(target=one, args=p) for p in parts]
    for t in ths:
        t.start()
    for t in ths:
        t.join()
    if errors:
        raise errors[0]
    for res in stats:
        ctx.tlc_stats(res)
    return [results[i] for i in range(len(traces))], obs, notes
