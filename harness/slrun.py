"""C12 binding: run one workload on the *real* `EtherCat('x')` (real roundtrip, sendloop,
process_packet, roundtrip_packet, datagram_received, Packet) over simbus/simloop and record what
happened as a list of uniform events for TLC (spec/SendLoopTrace.tla).

A workload is a JSON-serialisable dict
    reqs:  [{id, station, offset, size, start, cancel, cancel_on}]   start/cancel in virtual ms
           (cancel: None or an absolute time >= start at which the client task is cancelled;
           cancel_on: None or {ev: sendto|recv, hops: k}: the client task is cancelled k rounds of
           the ready queue after the request's frame was sent / came back)
    order: [id, ...]            order in which the client tasks are created
    present: [station, ...]     stations that exist on the bus (FPRD to any other station comes back
                                with working counter 0)
    bus:   [{kind: return|delay|lose|dup, delay, delay2}]   per frame, in the order of sendto;
                                frames beyond the list come back at once
    horizon: virtual ms after which the run is over

Requests are numbered r = 1, 2, ... at the moment of their submit (that numbering *is* the
submission order).  Datagrams on the wire are mapped back to requests through their distinct
(station, offset); terminal memory is preloaded with pseudo-random bytes so that the bytes
returned depend on station, offset and length.  Bytes are reported to TLC as tokens
(crc32 >> 1): the token of what the bus returned at the datagram's position (parsed from the
returned frame with simbus' independent parser) and the token of what the client got.

Events (all have the same fields so that TLC can read any of them):
    ev = submit | cancel | sendto | bus | recv | outcome | stall
"""
import asyncio
import logging
import random
import signal
import warnings
import zlib

from . import simbus, simloop

MEMSEED = 0xEC12


def token(b):
    return zlib.crc32(bytes(b)) >> 1


def event(ev, r=0, f=0, size=0, kind="", d=(), n=(), wkc=(), tok=(), t=0, exc="", nbytes=0):
    return dict(ev=ev, r=r, f=f, size=size, kind=kind, d=list(d), n=list(n), wkc=list(wkc),
                tok=list(tok), t=t, exc=exc, nbytes=nbytes)


class WatchLoop(simloop.SimLoop):
    """SimLoop plus a watchdog for code that never gives control back to the loop: more than
    `burst` callbacks scheduled within one loop iteration -> StallError raised into the code
    that is scheduling them (for sendloop this is ensure_future(process_packet(...)))."""

    def __init__(self, budget=200000, burst=1000):
        super().__init__(budget)
        self.burst = burst
        self._burst = 0
        self.stalled = False
        self.on_stall = None

    def _run_once(self):
        self._burst = 0
        super()._run_once()

    def create_task(self, coro, **kw):
        self._burst += 1
        if self._burst > self.burst and not self.stalled:
            self.stalled = True
            coro.close()
            if self.on_stall is not None:
                self.on_stall()
            raise simloop.StallError(f"more than {self.burst} tasks created without yielding")
        return super().create_task(coro, **kw)


def _alarm(signum, frame):
    raise simloop.StallError("wall-clock watchdog: code under test does not yield")


def run_workload(w, wall=20):
    """-> dict(events=[...], died=None | repr of the exception that ended sendloop)"""
    from ebpfcat.ethercat import EtherCat, ECCmd

    events = []
    state = dict(nsub=0, nframe=0, stalled=False)
    by_addr = {}            # (station, offset) -> r
    sizes = {}              # r -> size
    submitted = {}          # workload id -> r
    finished = set()        # r whose outcome has been logged
    index_to_f = {}
    tasks = {}
    byid = {q["id"]: q for q in w["reqs"]}
    loop = WatchLoop()

    def log(e):
        if not state["stalled"]:        # nothing is recorded after the stall
            events.append(e)

    def on_stall():
        log(event("stall", exc="StallError"))
        state["stalled"] = True
    loop.on_stall = on_stall

    async def client(q):
        if q["start"] > 0:
            await asyncio.sleep(q["start"] / 1000)
        state["nsub"] += 1
        r = state["nsub"]
        by_addr[(q["station"], q["offset"])] = r
        sizes[r] = q["size"]
        submitted[q["id"]] = r
        qid_of[r] = q["id"]
        log(event("submit", r=r, size=q["size"]))
        try:
            ret = await ec.roundtrip(ECCmd.FPRD, q["station"], q["offset"], data=q["size"])
        except asyncio.CancelledError:
            log(event("outcome", r=r, kind="cancelled"))
        except simloop.StallError:
            raise
        except BaseException as e:
            log(event("outcome", r=r, kind="error", exc=type(e).__name__))
        else:
            log(event("outcome", r=r, kind="result", t=token(ret), nbytes=len(ret)))
        finished.add(r)

    def do_cancel(qid):
        r = submitted.get(qid)
        task = tasks[qid]
        if r is None or r in finished or task.done():
            if r is None:
                task.cancel()           # never submitted: not a request at all
            return
        log(event("cancel", r=r))
        task.cancel()

    async def canceller():
        plan = sorted((q["cancel"], i, q["id"]) for i, q in enumerate(w["reqs"])
                      if q.get("cancel") is not None)
        for t, _, qid in plan:
            dt = t / 1000 - loop.time()
            if dt > 0:
                await asyncio.sleep(dt)
            do_cancel(qid)

    # cancellation points at loop-iteration granularity: `cancel_on: {ev: sendto|recv, hops: k}`
    # cancels the client k ready-queue rounds after its frame was sent / came back
    qid_of = {}
    fired = set()
    frame_d = {}

    def hop(k, qid):
        if k > 0:
            loop.call_soon(hop, k - 1, qid)
        else:
            do_cancel(qid)

    def trigger(kind, rs):
        for r in rs:
            qid = qid_of.get(r)
            co = byid[qid].get("cancel_on") if qid is not None else None
            if co and co["ev"] == kind and qid not in fired:
                fired.add(qid)
                loop.call_soon(hop, co["hops"], qid)

    def policy(frame):
        if state["stalled"] or loop.stalled:
            return [("lose",)]
        pf = simbus.parse_frame(frame)
        state["nframe"] += 1
        f = state["nframe"]
        index_to_f[simbus.frame_index(frame)] = f
        dg = pf["dgrams"][1:]
        ok = bool(pf["dgrams"]) and pf["dgrams"][0]["cmd"] == 0 and pf["dgrams"][0]["len"] == 2
        log(event("sendto", f=f, d=[by_addr.get((x["adp"], x["ado"]), 0) if ok and
                                              x["cmd"] == simbus.FPRD else 0 for x in dg],
                            n=[x["len"] for x in dg], nbytes=pf["end"]))
        frame_d[f] = [by_addr.get((x["adp"], x["ado"]), 0) for x in dg]
        trigger("sendto", frame_d[f])
        act = w["bus"][f - 1] if f <= len(w["bus"]) else dict(kind="return", delay=0)
        resp = bus.process(frame)
        rd = simbus.parse_frame(resp)["dgrams"][1:]
        wk = [x["wkc"] for x in rd]
        tk = [token(x["data"]) for x in rd]
        log(event("bus", f=f, kind=act["kind"], wkc=wk, tok=tk))
        if act["kind"] == "lose":
            return [("lose",)]
        if act["kind"] == "dup":
            return [("raw", act.get("delay", 0) / 1000, resp),
                    ("raw", act.get("delay2", 0) / 1000, resp)]
        return [("raw", act.get("delay", 0) / 1000, resp)]

    async def main():
        nonlocal ec, bus
        ec = EtherCat("x")
        terms = []
        for s in w["present"]:
            t = simbus.SimTerminal(name=f"S{s}", station=s)
            rng = random.Random(MEMSEED + s)
            t.mem[0x1000:0x10000] = rng.randbytes(0xF000)
            terms.append(t)
        bus = simbus.SimBus(terms)
        real_received = ec.datagram_received

        def received(data, addr):
            f = index_to_f.get(simbus.frame_index(data), 0)
            log(event("recv", f=f))
            trigger("recv", frame_d.get(f, ()))
            return real_received(data, addr)
        ec.datagram_received = received
        _, sl = simbus.attach(ec, bus, policy)
        for qid in w["order"]:
            tasks[qid] = asyncio.ensure_future(client(byid[qid]))
        cn = asyncio.ensure_future(canceller())
        pending = set(tasks.values())
        end = w["horizon"] / 1000
        died = None
        while pending and loop.time() < end and not sl.done():
            _, pending = await asyncio.wait(pending | {sl}, timeout=end - loop.time(),
                                            return_when=asyncio.FIRST_COMPLETED)
            pending.discard(sl)
        if sl.done():                   # the "eternal" send loop has ended
            e = sl.exception() if not sl.cancelled() else asyncio.CancelledError()
            died = repr(e)
            log(event("stall", exc=type(e).__name__))
            state["stalled"] = True
        else:
            for qid in w["order"]:
                r = submitted.get(qid)
                if r is not None and r not in finished:
                    log(event("outcome", r=r, kind="none"))
        cn.cancel()
        return died

    ec = bus = None
    asyncio.set_event_loop(loop)
    logging.disable(logging.CRITICAL)
    old = signal.signal(signal.SIGALRM, _alarm)
    signal.setitimer(signal.ITIMER_REAL, wall)
    died = None
    try:
        with warnings.catch_warnings():
            warnings.simplefilter("ignore")
            try:
                died = loop.run_until_complete(main())
            except simloop.StallError as e:
                died = repr(e)
                log(event("stall", exc="StallError"))
                state["stalled"] = True
                loop.stalled = True
    finally:
        signal.setitimer(signal.ITIMER_REAL, 0)
        signal.signal(signal.SIGALRM, old)
        state["stalled"] = True
        loop.stalled = True
        loop.set_exception_handler(lambda *a: None)
        try:
            simloop._cancel_all(loop)
        except BaseException:
            pass
        finally:
            asyncio.set_event_loop(None)
            loop.close()
            logging.disable(logging.NOTSET)
    return dict(events=events, died=died)
