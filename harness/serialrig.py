"""The serial channel rig for C28, importable by a spawned child.

A real `Serial` device on a channel of a real EL6002 in a real SyncGroup; a scripted EL6002 channel
(the terminal side of the handshake, timing from a script) that reads the output half of the
process image and writes the input half; an application side.  Two set-ups:

  * local:   everything in one process; the application uses the raw non-blocking pipe ends.
  * spawned: the sync group with its Serial device is pickled into a process created with the
             `spawn` context (what ProcessSyncGroup.start() does with its devices; this is what
             Serial.__getstate__ is for) and is updated THERE, cycle by cycle, against the
             scripted terminal; the application stays in the creating process, gets its streams
             from the real `Serial.connect()` and writes / reads through them.  Parent and child
             run in lock step over a multiprocessing connection so that the recorded run has the
             same shape as a local one and is judged by the same specification.

Import /repo modules only inside functions (the child has the repository on sys.path through
multiprocessing's preparation data)."""
import asyncio
import fcntl
import os
import struct
import termios

IDLE_END = 3          # quiet cycles after which a run is considered finished
SLACK = 12            # cycles granted beyond what the script's delays add up to
STEP_TIMEOUT = 30     # seconds the parent waits for the child's next message


def build(ch):
    """terminal, device and group for channel `ch`; returns (sg, term, dev)"""
    from ebpfcat.ebpfcat import SimpleEtherCat, SyncGroup
    from ebpfcat.serial import Serial
    from ebpfcat.terminals import EL6002
    ec = SimpleEtherCat("x")
    term = EL6002(ec)
    term.position = 5
    term.pdo_in_sz = term.pdo_out_sz = 48
    dev = Serial(term.channel1 if ch == 1 else term.channel2)
    sg = SyncGroup(ec, [dev])
    sg.allocate()
    sg.wkc_errors = 0
    sg.asm_packet = sg.packet.assemble(1000, ec.ethertype)
    sg.current_data = bytearray(sg.asm_packet)
    return sg, term, dev


class Image:
    """the process image of one channel in the frame of `sg`, seen from the terminal"""

    def attach(self, sg, term, ch):
        from ebpfcat.ethercat import SyncManager
        self.sg = sg
        off = 24 * (ch - 1)
        self.i0 = sg.pdo_assign[term][SyncManager.IN] + off      # status byte, then 23p string
        self.o0 = sg.pdo_assign[term][SyncManager.OUT] + off     # control byte, then 23p string
        self.inb = bytearray(24)                                 # the terminal's input half
    # the output half as the terminal sees it
    def out(self):
        d = self.sg.current_data
        c = d[self.o0]
        n = d[self.o0 + 1]
        return dict(TR=bool(c & 1), RA=bool(c & 2), IR=bool(c & 4), n=n,
                    outStr=list(d[self.o0 + 2:self.o0 + 2 + min(n, 22)]))

    def set_bits(self, TA=None, RR=None, IA=None):
        for bit, v in ((1, TA), (2, RR), (4, IA)):
            if v is True:
                self.inb[0] |= bit
            elif v is False:
                self.inb[0] &= ~bit & 0xff

    def bit(self, b):
        return bool(self.inb[0] & b)

    def set_string(self, data):
        self.inb[1] = len(data)
        self.inb[2:24] = bytes(data) + bytes(22 - len(data))

    def cycle(self):
        """one bus round trip: the frame comes back with the input half and the counters"""
        fr = bytearray(self.sg.current_data)
        fr[self.i0:self.i0 + 24] = self.inb
        for pos, cnt in self.sg.packet.counters.items():
            fr[pos] = cnt & 0xff
            fr[pos + 1] = cnt >> 8
        self.sg.update_devices(fr)


class Rig(Image):
    """local set-up: device, terminal and application in this process"""

    def __init__(self, ch):
        self.fds = []
        sg, term, dev = build(ch)
        self.dev = dev
        self.fds = [dev.in_read, dev.in_write, dev.out_read, dev.out_write]
        self.attach(sg, term, ch)

    def close(self):
        for fd in self.fds:
            try:
                os.close(fd)
            except OSError:
                pass
        self.fds = []

    def app_write(self, data):
        os.write(self.dev.out_write, bytes(data))

    def drain(self):
        """what arrived in the application's pipe: (bytes, problem or None)"""
        got = b""
        while True:
            try:
                b = os.read(self.dev.in_read, 4096)
            except BlockingIOError:
                return list(got), None
            if not b:
                return list(got), None
            got += b


def drive(script, ch=1):
    """play one behaviour locally; returns the recorded trace (list of events)"""
    rig = Rig(ch)
    try:
        return drive_script(rig, script)
    finally:
        rig.close()


def drive_script(rig, sc):
    """the scripted terminal and the cycle loop; the application side is the rig's"""
    ini = sc["init"]
    ev = []
    # application schedule: absolute cycles of the writes
    at, writes = 0, []
    for w in sc["tx"]:
        at += w["gap"]
        writes.append((at, w["data"]))
    budget = (SLACK + ini["di"] + ini["dr"] + sum(w["gap"] for w in sc["tx"])
              + sum(1 + w["d"] for w in sc["tx"]) * 4 + sum(2 + r["gap"] for r in sc["rx"]))
    # terminal state
    inited = ready = False
    wait_init, wait_ready = ini["di"], ini["dr"]
    seen_tr = False
    n_acc = 0
    wait_acc = None
    rx = list(sc["rx"])
    awaiting, t_ra, wait_ann, scribbled = False, False, None, True
    quiet = 0
    dead = False
    for cyc in range(budget):
        busy = False
        for a, data in writes:
            if a == cyc:
                rig.app_write(data)
                ev.append(dict(op="write", data=data))
                busy = True
        o = rig.out()
        # --- the terminal looks at the output half and acts
        if not inited:
            if o["IR"]:
                if wait_init > 0:
                    wait_init -= 1
                else:
                    inited = True
                    rig.set_bits(TA=ini["ta"], RR=ini["rr"], IA=True)
                    seen_tr = o["TR"]
                    ev.append(dict(op="t_initack", TA=ini["ta"], RR=ini["rr"]))
                busy = True
        elif not ready:
            busy = True
            if not o["IR"]:
                if wait_ready > 0:
                    wait_ready -= 1
                else:
                    ready = True
                    rig.set_bits(IA=False)
                    ev.append(dict(op="t_ready"))
        if ready:
            if o["TR"] != seen_tr:
                busy = True
                if wait_acc is None:
                    wait_acc = sc["tx"][n_acc]["d"] if n_acc < len(sc["tx"]) else 0
                if wait_acc > 0:
                    wait_acc -= 1
                else:
                    wait_acc = None
                    n_acc += 1
                    seen_tr = o["TR"]
                    rig.set_bits(TA=not rig.bit(1))
                    ev.append(dict(op="t_accept", took=o["outStr"]))
            free = not awaiting or o["RA"] != t_ra
            if free and awaiting and not scribbled:
                scribbled = True
                if sc["scribble"]:
                    rig.set_string(sc["junk"])
                    ev.append(dict(op="t_scribble", data=sc["junk"]))
            if free and rx:
                busy = True
                if wait_ann is None:
                    wait_ann = rx[0]["gap"]
                if wait_ann > 0:
                    wait_ann -= 1
                else:
                    wait_ann = None
                    data = rx.pop(0)["data"]
                    rig.set_string(data)
                    rig.set_bits(RR=not rig.bit(2))
                    awaiting, t_ra, scribbled = True, o["RA"], False
                    ev.append(dict(op="t_announce", data=data))
            elif not free:
                busy = True
        # --- the bus cycle: the real device updates
        before = o
        try:
            rig.cycle()
        except Exception as e:      # a case result: Serial has no step for it
            ev.append(dict(op="update", res="raise:" + type(e).__name__, TR=False, RA=False,
                           IR=False, outStr=[], got=[]))
            dead = True
            break
        o = rig.out()
        got, problem = rig.drain()
        ev.append(dict(op="update", res=problem or ("ok" if o["n"] <= 22 else "overlong"), TR=o["TR"],
                       RA=o["RA"], IR=o["IR"], outStr=o["outStr"], got=got))
        if (o["TR"], o["RA"], o["IR"]) != (before["TR"], before["RA"], before["IR"]) or got:
            busy = True
        if any(a > cyc for a, _ in writes):
            busy = True
        quiet = 0 if busy else quiet + 1
        if quiet >= IDLE_END:
            break
    if not dead:
        ev.append(dict(op="end", left=len(rx)))     # chunks the terminal never got to announce
    return ev


# ---------------------------------------------------------------------------------------------
# spawned set-up

class ChildRig(Image):
    """in the spawned child: the unpickled group and device; the application is in the parent"""

    def __init__(self, sg, term, ch, conn):
        self.attach(sg, term, ch)
        self.conn = conn

    def app_write(self, data):
        self.conn.send(("write", bytes(data)))
        self.conn.recv()

    def drain(self):
        self.conn.send(("updated",))
        _, got, problem = self.conn.recv()
        return list(got), problem


def child_main(jobs, conn):
    """target of the spawned process: play every job's script on its unpickled sync group"""
    import logging
    logging.disable(logging.CRITICAL)
    for k, (sg, term, ch, sc) in enumerate(jobs):
        conn.send(("start", k))
        conn.recv()
        try:
            ev = drive_script(ChildRig(sg, term, ch, conn), sc)
        except (EOFError, BrokenPipeError, ConnectionError):
            raise
        except BaseException as e:        # the harness in the child failed: tell the parent
            conn.send(("crash", k, f"{type(e).__name__}: {e}"))
            conn.recv()
            continue
        conn.send(("done", k, ev))
        conn.recv()
    conn.send(("bye",))


def _fionread(fd):
    try:
        return struct.unpack("i", fcntl.ioctl(fd, termios.FIONREAD, b"\0\0\0\0"))[0]
    except OSError:
        return 0


class _Hang(Exception):
    pass


async def _parent(conn, devs, results, index):
    """the application side of every job, in lock step with the child"""
    loop = asyncio.get_running_loop()

    async def arecv():
        if not conn.poll(0):
            fut = loop.create_future()
            loop.add_reader(conn.fileno(), lambda: fut.done() or fut.set_result(None))
            try:
                await asyncio.wait_for(fut, STEP_TIMEOUT)
            except asyncio.TimeoutError:
                raise _Hang()
            finally:
                loop.remove_reader(conn.fileno())
        try:
            return conn.recv()
        except (EOFError, ConnectionError):
            raise _Hang()

    current = None
    try:
        while True:
            msg = await arecv()
            if msg[0] == "bye":
                return
            assert msg[0] == "start", msg
            k = current = msg[1]
            dev = devs[k]
            st = dict(task=loop.create_task(dev.connect()), reader=None, writer=None, closed=False)
            await asyncio.sleep(0)
            conn.send(("go",))
            while True:
                msg = await arecv()
                if msg[0] == "write":
                    if st["writer"] is not None:
                        st["writer"].write(msg[1])          # the stream connect() handed out
                    else:
                        os.write(dev.out_write, msg[1])     # not connected yet: the bare pipe end
                    conn.send(("ok",))
                elif msg[0] == "updated":
                    got, problem = await _drain(dev, st)
                    conn.send(("got", got, problem))
                elif msg[0] == "done":
                    results[index[k]] = msg[2]
                    break
                elif msg[0] == "crash":
                    results[index[k]] = [dict(op="update", res="childcrash:" + msg[2], TR=False,
                                              RA=False, IR=False, outStr=[], got=[])]
                    break
            await _finish(dev, st)
            current = None
            conn.send(("next",))
    except _Hang:
        if current is not None:
            results[index[current]] = [dict(op="update", res="hang", TR=False, RA=False, IR=False,
                                            outStr=[], got=[])]
            await _finish(devs[current], st)


async def _drain(dev, st):
    """everything that has arrived for the application since the last call.  The connect marker
    is consumed by Serial.connect() itself: the cycle in which connect() returns reports it."""
    quiet = 0
    for _ in range(400):
        quiet = quiet + 1 if _fionread(dev.in_read) == 0 else 0
        if quiet >= 8:
            break
        await asyncio.sleep(0)
    if st["reader"] is None:
        task = st["task"]
        if not task.done():
            return b"", None
        st["closed"] = True              # connect() has closed in_write and out_read here
        if task.cancelled() or task.exception() is not None:
            e = task.exception() if not task.cancelled() else None
            st["reader"] = False
            return b"", "connect:" + (type(e).__name__ if e else "cancelled")
        st["reader"], st["writer"] = task.result()
        got = b"A"
    else:
        got = b""
    if st["reader"]:
        n = len(getattr(st["reader"], "_buffer", b""))
        if n:
            got += await st["reader"].read(n)
    return got, None


async def _finish(dev, st):
    task = st["task"]
    if not task.done():
        task.cancel()
        try:
            await task
        except BaseException:
            pass
    if st["writer"] is not None:
        st["writer"].close()
    tr = getattr(st["reader"], "_transport", None) if st["reader"] else None
    if tr is not None:
        tr.close()
    if not st["closed"]:
        for fd in (dev.in_write, dev.out_read):
            try:
                os.close(fd)
            except OSError:
                pass
    await asyncio.sleep(0)


def drive_spawned(jobs, batch=40):
    """jobs: list of (script, ch).  Every job gets a fresh Serial device in a fresh SyncGroup; the
    groups of a batch are pickled into ONE spawned child (Process.start() pickles them, which runs
    Serial.__getstate__), which plays the scripts one after the other while this process is the
    application.  Returns the recorded traces, in order."""
    import gc
    import multiprocessing
    import warnings
    from harness.procstandin import spawn_guard
    results = [None] * len(jobs)
    attempts = 0
    while any(r is None for r in results):
        attempts += 1
        if attempts > len(jobs) + 2:
            raise RuntimeError("spawned serial runs do not make progress")
        todo = [i for i, r in enumerate(results) if r is None][:batch]
        built = [build(jobs[i][1]) for i in todo]
        devs = [b[2] for b in built]
        mp = multiprocessing.get_context("spawn")
        here, there = mp.Pipe()
        proc = mp.Process(target=child_main, daemon=True,
                          args=([(b[0], b[1], jobs[i][1], jobs[i][0]) for b, i in zip(built, todo)],
                                there))
        with spawn_guard():
            proc.start()
        there.close()
        loop = asyncio.new_event_loop()
        try:
            loop.run_until_complete(_parent(here, devs, results, todo))
        finally:
            proc.join(0.5 if any(results[i] is None for i in todo) else 5)
            if proc.is_alive():
                proc.kill()
                proc.join(5)
            here.close()
            with warnings.catch_warnings():
                warnings.simplefilter("ignore")
                loop.run_until_complete(asyncio.sleep(0))
                loop.close()
                # devices whose turn never came still own all four pipe ends
                for i, d in zip(todo, devs):
                    if results[i] is None:
                        for fd in (d.in_read, d.in_write, d.out_read, d.out_write):
                            try:
                                os.close(fd)
                            except OSError:
                                pass
                del built, devs
                gc.collect()
    return results
