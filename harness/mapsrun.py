"""Running histories of map programs for C08 / C09: one program instance built from the REAL classes,
Python-side operations through the real descriptors, program runs on the real kernel and / or on
the eBPF machine (spec/StoreRun.tla over spec/EbpfRun.tla).

Two backends:
  kernel  real maps, the real `load()` (real verifier), `harness.kernel.test_run` for a run; every run
          is ALSO executed by the machine from the map contents found before the run, and TLC requires
          the machine to end with exactly the contents the kernel left (one batch at the end);
  fake    harness/fakekernel.py holds the maps; a run is executed by the machine only and its final
          map contents are loaded into the fake before the history continues.  Histories are
          generators; `drive` advances all of them to their next run and executes these runs in one
          TLC invocation (lock-step), so a whole batch of histories costs one TLC start per run index.

Nothing here judges a property: values are converted to the abstract words of spec/Store.tla
(9-byte two's complement) and handed to TLC."""
import decimal
import json
import mmap
import os
import struct
import ctypes

from . import kernel, progs, tlc as T

VL = 9
SCALE = 100000
PKT = bytes(64)


def word(v):
    return list(int(v).to_bytes(VL, "little", signed=True))


def unword(w):
    return int.from_bytes(bytes(w), "little", signed=True)


def scaled(x):
    """the decimal a fixed-point variable shows, times 100000, if that is an integer (else None)"""
    try:
        d = decimal.Decimal(repr(x)) * SCALE
    except (decimal.InvalidOperation, ValueError):
        return None
    if d != d.to_integral_value() or abs(d) >= 2 ** 70:
        return None
    return int(d)


# ---- raw kernel calls that harness/kernel.py does not have ----------------------------------------
def k_next_key(fd, key, ks):
    nxt = ctypes.create_string_buffer(ks)
    if key is None:
        attr = struct.pack("<I4xQQ", fd, 0, ctypes.addressof(nxt))
    else:
        k = ctypes.create_string_buffer(bytes(key), len(key))
        attr = struct.pack("<I4xQQ", fd, ctypes.addressof(k), ctypes.addressof(nxt))
    try:
        kernel._bpf(4, attr)
    except OSError as e:
        if e.errno == 2:
            return None
        raise
    return nxt.raw


def k_items(fd, ks, vs):
    out, key = [], None
    for _ in range(100000):
        key = k_next_key(fd, key, ks)
        if key is None:
            break
        v = kernel.map_lookup(fd, key, vs)
        if v is not None:
            out.append((key, v))
    return out


class Session:
    """one loaded program instance and its maps"""

    def __init__(self, backend, inst, code, maps):
        self.backend = backend
        self.inst = inst
        self.b = progs.Built(inst, code, maps)
        self.ncpu = backend.ncpu

    # map contents as the machine wants them: arrays (per-CPU: the copy of `cpu`) and hash entries
    def state(self, cpu):
        arr, hashes = {}, []
        fk = self.backend.fk
        for no, m in enumerate(self.b.maps, 1):
            stride = (m["vs"] + 7) // 8 * 8
            if m["type"] == "array":
                arr[no] = fk.array_bytes(m["fd"])[:m["vs"]] if fk else kernel.map_lookup(m["fd"], bytes(4), m["vs"])
            elif m["type"] == "percpu":
                if fk:
                    arr[no] = fk.array_bytes(m["fd"], cpu)[:m["vs"]]
                else:
                    allc = kernel.map_lookup(m["fd"], bytes(4), stride * self.ncpu)
                    arr[no] = allc[cpu * stride:cpu * stride + m["vs"]]
            elif m["type"] == "hash":
                items = fk.hash_items(m["fd"]) if fk else k_items(m["fd"], m["ks"], m["vs"])
                hashes += [(no, k, v) for k, v in items]
        return arr, hashes

    def request(self, cpu, pkt=PKT):
        """a program run: on the kernel backend it is executed here and now"""
        arr, hashes = self.state(cpu)
        req = dict(session=self, cpu=cpu, case=progs.case(self.b, pkt=pkt, arr=arr, hashes=hashes),
                   expect=dict(has=False, arr=[], hash=[]), rv=None, error=None)
        if self.backend.fk is None:
            old = os.sched_getaffinity(0)
            try:
                os.sched_setaffinity(0, {cpu})
                rv, _ = kernel.test_run(self.inst.file_descriptor, pkt)
                req["rv"] = rv
            except OSError as e:
                req["error"] = f"test_run: {e}"
            finally:
                os.sched_setaffinity(0, old)
            arr2, hashes2 = self.state(cpu)
            req["expect"] = dict(has=True, arr=[list(arr2[k]) for k in sorted(arr2)],
                                 hash=[dict(fd=f, key=list(k), val=list(v)) for f, k, v in hashes2])
        return req

    def apply(self, result, cpu):
        """fake backend: make the maps hold what the machine's run left"""
        fk = self.backend.fk
        order = [no for no, m in enumerate(self.b.maps, 1) if m["type"] in ("array", "percpu")]
        for no, data in zip(order, result["arr"]):
            m = self.b.maps[no - 1]
            fk.array_store(m["fd"], bytes(data), cpu if m["type"] == "percpu" else None)
        per = {}
        for fd, key, val in result["hash"]:
            per.setdefault(fd, []).append((bytes(key), bytes(val)))
        for no, m in enumerate(self.b.maps, 1):
            if m["type"] == "hash":
                fk.hash_replace(m["fd"], per.get(no, []))

    def close(self):
        if self.backend.fk is not None:
            return
        for v in list(self.inst.__dict__.values()):
            if isinstance(v, mmap.mmap):
                try:
                    v.close()
                except (BufferError, ValueError):
                    pass
        fds = [m["fd"] for m in self.b.maps]
        if getattr(self.inst, "file_descriptor", None) is not None:
            fds.append(self.inst.file_descriptor)
        for fd in fds:
            try:
                os.close(fd)
            except OSError:
                pass


class Backend:
    def __init__(self, mode, fk=None):
        assert mode in ("kernel", "fake")
        self.mode = mode
        self.fk = fk if mode == "fake" else None
        from .fakekernel import possible_cpus
        self.ncpu = self.fk.possible if self.fk else possible_cpus()
        self.cpus = sorted(os.sched_getaffinity(0)) if mode == "kernel" else list(range(self.ncpu))

    def create(self, make_inst):
        """make_inst() constructs the program object from the real classes; it is then loaded with its
        own load().  Whatever the library raises on the way propagates (a case result)."""
        import ebpfcat.bpf as bpf
        got = {}
        maps = []
        inst = None
        real_load = bpf.prog_load

        def prog_load(prog_type, insns, *a, **kw):
            got["code"] = bytes(insns)
            return real_load(prog_type, insns, *a, **kw)
        bpf.prog_load = prog_load
        try:
            with progs.recording(use_kernel=True) as maps:
                inst = make_inst()
                inst.load(log_level=1) if self.fk is None else inst.load()
        except BaseException:
            # do not leak descriptors of half-built programs
            if self.fk is None:
                for m in maps:
                    try:
                        os.close(m["fd"])
                    except OSError:
                        pass
            raise
        finally:
            bpf.prog_load = real_load
        return Session(self, inst, got["code"], list(maps))


def machine(ctx, wd, reqs, workers=4, timeout=1500):
    """execute the runs on the eBPF machine; returns [(agrees_with_kernel, result dict)] in order"""
    if not reqs:
        return []
    path = os.path.join(wd, f"runs_{len(os.listdir(wd))}.json")
    with open(path, "w") as f:
        json.dump([dict(r["case"], expect=r["expect"]) for r in reqs], f)
    res = T.run(wd, "StoreRun", "StoreRun.cfg", workers=workers, timeout=timeout, deadlock=False,
                env={"TRACE_FILE": path})
    if res.error:
        raise T.MachineryError("StoreRun failed:\n" + res.error[:3000])
    ctx.tlc_stats(res)
    out = {}
    for cid, ok, result in T.printed_records(res, "MRUN"):
        out[cid] = (ok, result)
    if len(out) != len(reqs):
        raise T.MachineryError(f"machine: {len(out)} results for {len(reqs)} runs\n" + res.out[-2000:])
    os.remove(path)
    return [out[i] for i in range(1, len(reqs) + 1)]


def drive(ctx, wd, gens, mode, workers=4):
    """advance the history generators; each yields run requests (Session.request) and, on the fake
    backend, is sent the machine's result.  Returns every (request, agrees, result)."""
    done = []
    if mode == "kernel":
        reqs = []
        for g in gens:
            try:
                req = next(g)
                while True:
                    reqs.append(req)
                    req = g.send(None)
            except StopIteration:
                pass
        for start in range(0, len(reqs), 3000):
            part = reqs[start:start + 3000]
            for req, (ok, result) in zip(part, machine(ctx, wd, part, workers)):
                done.append((req, ok, result))
        return done
    live = []
    for g in gens:
        try:
            live.append((g, next(g)))
        except StopIteration:
            pass
    while live:
        results = machine(ctx, wd, [r for _, r in live], workers)
        nxt = []
        for (g, req), (ok, result) in zip(live, results):
            done.append((req, ok, result))
            try:
                nxt.append((g, g.send(result)))
            except StopIteration:
                pass
        live = nxt
    return done


def validate(ctx, wd, traces, chunk=300, timeout=1500):
    """spec/StoreTrace.tla over all traces: returns {trace index: [(event index, why)]}"""
    rejects = {}
    for start in range(0, len(traces), chunk):
        part = traces[start:start + chunk]
        path = os.path.join(wd, f"store_{start}.json")
        with open(path, "w") as f:
            json.dump(part, f)
        res = T.run(wd, "StoreTrace", "StoreTrace.cfg", workers=1, timeout=timeout, deadlock=False,
                    env={"TRACE_FILE": path})
        if res.error or not res.ok:
            raise T.MachineryError(f"StoreTrace failed:\n{res.error}\n{res.out[-3000:]}")
        ctx.tlc_stats(res)
        fin = {r[0]: (r[1], r[2]) for r in T.printed_records(res, "RESULT")}
        for i in range(1, len(part) + 1):
            if i not in fin or fin[i][0] != fin[i][1]:
                raise T.MachineryError(f"history {start + i} not validated to its end: {fin.get(i)}")
        for tid, l, why, expected in T.printed_records(res, "REJECT"):
            rejects.setdefault(start + tid - 1, []).append((l - 1, why, expected))
        os.remove(path)
    return rejects


def unwords(x):
    """abstract values printed by TLC -> Python: words become ints, Unknown None, NonZero "nonzero" """
    if isinstance(x, list):
        if len(x) == VL and all(isinstance(b, int) for b in x):
            return unword(x)
        if x == []:
            return None
        if x == [-1]:
            return "nonzero"
        return [unwords(y) for y in x]
    return x


def event(op, id=0, cpu=1, res="ok", v=(), k=(), items=()):
    return dict(op=op, id=id, cpu=cpu, res=res, v=list(v), k=list(k), items=list(items))


def exc_name(e):
    return "exc:" + type(e).__name__
