"""Optional part of X04: the REAL ebpfcat.xdp.XDP object over REAL rtnetlink.

Run as `python -m harness.xdpreal` (checks/x04.py does, in a subprocess): the process moves into a
private network namespace (unshare(CLONE_NEWNET): its own `lo`, nothing of the host is touched),
creates a veth pair (native XDP) and replays a fixed list of plain scripts on a real asyncio loop
with the real netlink socket.  What is recorded is the same event list as harness/xdplink's:

    open / send / recv / sclose   observed at the real transport (the protocol instance gets a
                                  recording proxy of its transport; nothing is faked)
    send ... kres kskb kdrv       kres = the error code of the kernel's reply (peeked from the socket
                                  right after sendto: rtnetlink has answered by then),
                                  kskb / kdrv = the interface as `ip -j -d link show` reports it
                                  (program ids mapped to load numbers via /proc/self/fdinfo)
    load / mapload / close / ret  as in harness/xdplink

spec/XdpLinkTrace.tla validates the traces: here it is the specification's kernel model (KSet) that
is compared with the kernel.  Any failure to set this up exits non-zero: the part is then skipped.
Prints one JSON object: {"note": ..., "sessions": [{calls, cfgnames, trace}]}."""
import asyncio
import ctypes
import json
import os
import socket
import struct
import subprocess
import sys

CLONE_NEWNET = 0x40000000
VETH = ("x04a", "x04b")

SCRIPTS = [
    [("attach", "lo", 2), ("detach", "lo", 2), ("close",)],
    [("attach", VETH[0], 4), ("detach", VETH[0], 4), ("close",)],
    [("attach", "lo", 4)],
    [("attach", VETH[0], 2), ("detach", VETH[0], 4), ("detach", VETH[0], 2)],
    [("detach", "lo", 2)],
    [("detach", "lo", 4)],
    [("detach", VETH[0], 4)],
    [("enter", VETH[0], 2), ("exit", "normal")],
    [("enter", "lo", 2), ("exit", "raise")],
    [("enter", VETH[0], 4), ("exit", "cancelled")],
    [("enter", "lo", 4)],
    [("attach", "lo", 2), ("close",), ("detach", "lo", 2)],
    [("load",), ("close",), ("detach", VETH[0], 2)],
]


def sh(cmd):
    return subprocess.run(cmd, shell=True, stdout=subprocess.PIPE, stderr=subprocess.PIPE, text=True)


def prog_id(fd):
    with open(f"/proc/self/fdinfo/{fd}") as f:
        for line in f:
            if line.startswith("prog_id:"):
                return int(line.split()[1])
    raise RuntimeError("no prog_id in fdinfo")


def xdp_state(name, ids):
    """-> (skb, drv) program numbers attached to the interface, as iproute2 reports them"""
    p = sh(f"ip -j -d link show dev {name}")
    if p.returncode != 0:
        raise RuntimeError(p.stderr)
    x = json.loads(p.stdout)[0].get("xdp")
    skb = drv = 0
    if x:
        att = x.get("attached") or [x]
        for a in att:
            no = ids.get(a.get("prog", {}).get("id"), -1)
            if a.get("mode") == 2:
                skb = no
            elif a.get("mode") == 1:
                drv = no
            else:
                raise RuntimeError(f"xdp mode {a.get('mode')} not expected")
    return skb, drv


class ProxyTransport:
    def __init__(self, real, hub, sid, ifname_of, ids):
        self._real, self._hub, self._sid, self._ifname_of, self._ids = real, hub, sid, ifname_of, ids

    def __getattr__(self, name):
        return getattr(self._real, name)

    def sendto(self, data, addr=None):
        data = bytes(data)
        self._real.sendto(data, addr)
        sock = self._real.get_extra_info("socket")
        peek = socket.socket(fileno=os.dup(sock.fileno()))
        try:
            reply = peek.recv(65536, socket.MSG_PEEK | socket.MSG_DONTWAIT)
        finally:
            peek.close()
        ty, = struct.unpack_from("<H", reply, 4)
        if ty != 2:
            raise RuntimeError("the kernel's first reply is not NLMSG_ERROR")
        kres, = struct.unpack_from("<i", reply, 16)
        index, = struct.unpack_from("<i", data, 20)
        name = self._ifname_of.get(index)
        skb, drv = xdp_state(name, self._ids) if name else (0, 0)
        self._hub.rec(e="send", s=self._sid, b=list(data), forced=0, kres=kres, kskb=skb, kdrv=drv)
        self._hub.requests += 1

    def close(self):
        if not self._real.is_closing():
            self._hub.rec(e="sclose", s=self._sid)
        self._real.close()


def run_real_session(script, cfg, ifname_of):
    from harness import xdplink as L
    import ebpfcat.bpf as B
    import ebpfcat.ebpf as EB
    import ebpfcat.xdp as X
    hub = L.Hub([dict(ifx=c["ifx"], native=c["native"]) for c in cfg])
    hub.use_kernel = True
    ids = {}
    saved = (B.prog_load, EB.os)
    inner = L.make_prog_load(hub, saved[0])

    def prog_load(*a, **kw):
        fd, log = inner(*a, **kw)
        ids[prog_id(fd)] = hub.fdprog[fd]
        return fd, log

    calls = []
    for c in script:
        d = dict(op=c[0], net="", flags=0, how="none", reply="ack", cancel="0")
        if c[0] in ("attach", "detach", "enter"):
            d.update(net=c[1], flags=c[2])
        elif c[0] == "exit":
            d["how"] = c[1]
        calls.append(d)

    async def main():
        loop = asyncio.get_running_loop()
        real_cde = loop.create_datagram_endpoint

        async def cde(protocol_factory, *a, family=0, proto=0, **kw):
            hub.nsock += 1
            sid = hub.nsock
            hub.rec(e="open", s=sid, fam=int(family), proto=int(proto))

            holder = {}

            def factory():
                p = protocol_factory()
                cm, dr = p.connection_made, p.datagram_received

                def connection_made(transport):
                    holder["proxy"] = ProxyTransport(transport, hub, sid, ifname_of, ids)
                    cm(holder["proxy"])

                def datagram_received(data, addr):
                    hub.rec(e="recv", s=sid, b=list(data))
                    try:
                        dr(data, addr)
                    except BaseException as exc:
                        hub.rec(e="cberr", s=sid, exctype=type(exc).__name__)
                        raise
                p.connection_made, p.datagram_received = connection_made, datagram_received
                return p
            transport, protocol = await real_cde(factory, *a, family=family, proto=proto, **kw)
            return holder.get("proxy", transport), protocol
        loop.create_datagram_endpoint = cde
        x = L.make_program(hub)
        state = dict(cm=None, on=False)
        for c in calls:
            op = c["op"]
            if (op == "exit" and not state["on"]) or (op == "enter" and state["on"]):
                continue
            if op == "exit":
                c.update(net=state["net"], flags=state["flags"])
            elif op == "enter":
                state.update(net=c["net"], flags=c["flags"])
            ifx = socket.if_nametoindex(c["net"]) if c["net"] else 0
            hub.rec(e="call", op=op, ifx=ifx, flags=c["flags"] if ifx else 0, how=c["how"])
            hub.nsock = 0
            out = dict(res="ok", errno=0, exctype="")
            try:
                if op == "load":
                    x.load()
                elif op == "close":
                    x.close()
                elif op == "attach":
                    await asyncio.wait_for(x.attach(c["net"], X.XDPFlags(c["flags"])), 10)
                elif op == "detach":
                    await asyncio.wait_for(x.detach(c["net"], X.XDPFlags(c["flags"])), 10)
                elif op == "enter":
                    state["cm"] = x.run(c["net"], X.XDPFlags(c["flags"]))
                    await asyncio.wait_for(state["cm"].__aenter__(), 10)
                else:
                    how = c["how"]
                    exc = dict(normal=None, **{"raise": L.Boom("body")}, cancelled=asyncio.CancelledError())[how]
                    try:
                        r = await state["cm"].__aexit__(type(exc) if exc else None, exc, None)
                    except (L.Boom, asyncio.CancelledError):
                        r = False
                    out["res"] = "swallowed" if r else ("ok" if how == "normal" else "propagate")
            except asyncio.TimeoutError:
                out["res"] = "hang"
            except OSError as e:
                out.update(res="oserror", errno=e.errno if isinstance(e.errno, int) else 0, exctype=type(e).__name__)
            except Exception as e:
                out.update(res="raise", exctype=type(e).__name__)
            out.update(loaded=bool(getattr(x, "loaded", False)), handle=L.handle_of(x))
            hub.rec(e="ret", out=out)
            if op == "enter":
                state["on"] = out["res"] == "ok"
            elif op == "exit":
                state["on"] = False
            if out["res"] == "hang":
                break
        hub.frozen = True

    loop = asyncio.new_event_loop()
    asyncio.set_event_loop(loop)
    try:
        B.prog_load, EB.os = prog_load, L.OsProxy(os, hub)
        loop.run_until_complete(main())
    finally:
        B.prog_load, EB.os = saved
        asyncio.set_event_loop(None)
        loop.close()
        for fd in list(hub.fdprog):
            try:
                os.close(fd)
            except OSError:
                pass
        for c in cfg:                                  # the next session starts from empty interfaces
            sh(f"ip link set dev {c['net']} xdpgeneric off; ip link set dev {c['net']} xdpdrv off")
    return dict(calls=calls, cfgnames=cfg,
                trace=dict(cfg=[dict(ifx=c["ifx"], native=c["native"]) for c in cfg], nmaps=L.NMAPS, ev=hub.ev,
                           requests=hub.requests, skipped=0))


def main():
    repo = os.environ.get("VERIF_XDPREAL_REPO", "/repo")
    sys.dont_write_bytecode = True
    sys.path.insert(0, repo)
    from harness import kernel
    if not kernel.available():
        sys.exit("bpf() is not usable here")
    libc = ctypes.CDLL("libc.so.6", use_errno=True)
    if libc.unshare(CLONE_NEWNET) != 0:
        sys.exit(f"unshare(CLONE_NEWNET) failed: errno {ctypes.get_errno()}")
    cfg = [dict(net="lo", ifx=socket.if_nametoindex("lo"), native=False)]
    note = "private network namespace: lo (generic XDP only)"
    if sh(f"ip link add {VETH[0]} type veth peer name {VETH[1]}").returncode == 0:
        cfg.append(dict(net=VETH[0], ifx=socket.if_nametoindex(VETH[0]), native=True))
        note += f" + veth {VETH[0]} (native XDP)"
    if sh("ip -j -d link show dev lo").returncode != 0:
        sys.exit("iproute2 without JSON output")
    ifname_of = {c["ifx"]: c["net"] for c in cfg}
    have = {c["net"] for c in cfg}
    sessions = []
    for script in SCRIPTS:
        if all(len(c) < 3 or c[1] in have for c in script):
            sessions.append(run_real_session(script, cfg, ifname_of))
    json.dump(dict(note=note, sessions=sessions), sys.stdout)


if __name__ == "__main__":
    main()
