"""Stand-ins for the process-based sync group (C24, C29), importable by the spawned child.

`ProcessSyncGroup.start()` pickles the group into a child created with the `spawn` context; the
child re-imports every class by module name, so the classes used there live here and not in
`__main__`.  Import this module only after harness.core has put the repository on sys.path.

StandInEtherCat is a ParallelEtherCat whose `run()` touches neither /run/lock nor a NIC: it
reads a JSON description of a simulated segment from the path given as "network name" (the only
thing ParallelEtherCat's own __getstate__ carries into the child), attaches the REAL
sendloop/roundtrip machinery of the object to that segment (harness.simbus) and appends what the
terminals see (AL requests, cyclic frames) plus the master's FMMU tables to `<path>.log`, one
JSON object per line, flushed at once so that nothing is lost if the child has to be killed.
Everything else (subprocess_run, subprocess_loop, run, wait_for_process, start) is the real code.
"""
import json
import os
import sys
from contextlib import asynccontextmanager, contextmanager

import ebpfcat.ebpfcat as E
from ebpfcat.ethercat import SyncManager

from . import simbus


class _Addr:
    def __init__(self):
        self.next = 0

    def get_next_addr(self):
        self.next += 0x1000
        return self.next


class StandInEtherCat(E.ParallelEtherCat):
    def __init__(self, network):
        super().__init__(network)
        self.fmmu_lock_file = _Addr()        # what ParallelEtherCat.run() would have set

    @asynccontextmanager
    async def run(self):
        with open(self.addr[0]) as f:
            cfg = json.load(f)
        log = open(self.addr[0] + ".log", "a")

        def emit(**e):
            log.write(json.dumps(e) + "\n")
            log.flush()

        import logging
        logging.disable(logging.CRITICAL)      # the child shares our stderr
        os.dup2(os.open(os.devnull, os.O_WRONLY), 2)
        emit(t="childstart", pid=os.getpid())
        sims = []
        for i in range(cfg["nterm"]):
            s = simbus.SimTerminal(f"S{i}", fmmus=4, station=100 + i)
            s.al_state = cfg["init"][i]

            def al(off, data, i=i):
                if off == 0x120:
                    emit(t="al", term=i + 1, v=data[0] | (data[1] << 8 if len(data) > 1 else 0))
                return False
            s.add_handler(0x120, 0x122, None, al)
            sims.append(s)
        bus = simbus.SimBus(sims)
        state = dict(frames=0)

        def policy(frame):
            if simbus.frame_index(frame) == cfg.get("packet_index"):
                state["frames"] += 1
                emit(t="frame")
                if cfg.get("fail_after") and state["frames"] >= cfg["fail_after"]:
                    emit(t="busfailure")
                    raise RuntimeError("simulated bus failure")   # run() ends by itself
                if cfg.get("lose_from") is not None and state["frames"] > cfg["lose_from"]:
                    return [("lose",)]          # only the cyclic frames are lost
            return [("return", cfg["delay"])]

        tr, sendtask = simbus.attach(self, bus, policy)
        self._emit = emit
        try:
            yield
        finally:
            sendtask.cancel()
            emit(t="childend")
            log.close()


def child_fmmu_report(sg):
    """the master's FMMU tables as the child sees them (called from the device's last update and
    from the stand-in's exit)"""
    return [sum(1 for x in t.fmmu_used if x is not None) for t in sg.terminals]


class PTermRW(E.EBPFTerminal):
    pin = E.PacketDesc(SyncManager.IN, 0, "B")
    pout = E.PacketDesc(SyncManager.OUT, 0, "B")


class PTermRO(E.EBPFTerminal):
    pin = E.PacketDesc(SyncManager.IN, 0, "B")


class PDev(E.Device):
    """copies input + 1 to the output of every read-write terminal, in the child"""
    i0 = E.TerminalVar()
    i1 = E.TerminalVar()
    i2 = E.TerminalVar()
    o0 = E.TerminalVar()
    o1 = E.TerminalVar()
    o2 = E.TerminalVar()
    rw = ()

    def update(self):
        for i, rw in enumerate(self.rw):
            if rw:
                setattr(self, f"o{i}", (getattr(self, f"i{i}") + 1) & 0xff)


class ReportingGroup(E.ProcessSyncGroup):
    """the real ProcessSyncGroup; `run` is wrapped only to report the master's FMMU tables of
    the child into the child's log after the real run() has ended (however it ended)"""

    async def run(self):
        try:
            await super().run()
        finally:
            emit = getattr(self.ec, "_emit", None)
            if emit is not None:
                for i, n in enumerate(child_fmmu_report(self)):
                    emit(t="fmmu", term=i + 1, n=n)


def build_group(cfg, path, reporting=True):
    """parent side: terminals, device and the group for the segment description `cfg`"""
    ec = StandInEtherCat(path)
    objs = []
    for i in range(cfg["nterm"]):
        o = (PTermRW if cfg["rw"][i] else PTermRO)(ec)
        o.name = f"T{i}"
        o.position = 100 + i
        o.use_fmmu = cfg["fmmu"][i]
        o.pdo_in_sz, o.pdo_in_off = 2, 0x1100
        o.pdo_out_sz, o.pdo_out_off = (2, 0x1000) if cfg["rw"][i] else (0, None)
        o.fmmu_used = [None] * 4
        objs.append(o)
    dev = PDev()
    dev.rw = tuple(cfg["rw"])
    for i, o in enumerate(objs):
        setattr(dev, f"i{i}", o.pin)
        if cfg["rw"][i]:
            setattr(dev, f"o{i}", o.pout)
    cls = ReportingGroup if reporting else E.ProcessSyncGroup
    sg = cls(ec, [dev])
    sg.cycletime = cfg["cycletime"]
    return ec, objs, dev, sg


@contextmanager
def spawn_guard():
    """while a child is being spawned: keep it from re-running the check script as __mp_main__
    (the script has no __main__ guard) and from writing byte code into the repository"""
    main = sys.modules["__main__"]
    had = hasattr(main, "__file__")
    saved = getattr(main, "__file__", None)
    env = os.environ.get("PYTHONDONTWRITEBYTECODE")
    os.environ["PYTHONDONTWRITEBYTECODE"] = "1"
    if had:
        del main.__file__
    try:
        yield
    finally:
        if had:
            main.__file__ = saved
        if env is None:
            del os.environ["PYTHONDONTWRITEBYTECODE"]
        else:
            os.environ["PYTHONDONTWRITEBYTECODE"] = env
