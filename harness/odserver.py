"""The conformant CoE server of harness/coeserver extended with the SDO-information service
(ETG.1000.6 5.6.3): Get OD List, Get Object Description, Get Entry Description, SDO Info Error,
with fragmented responses.  These are the server actions of spec/OdInfo.tla.

It is *not* trusted: every mail it receives (`req`) and every mail the master takes out of the
terminal -> master mailbox (`rsp`) is logged, and the log is validated by TLC against OdInfo, so a
server that strays from the specification is rejected together with the trace.

    srv = OdServer(term, dictionary, script, choose)
    term.mbx_server = srv

dictionary: list (in the order the server lists them) of
    dict(index, dtype, maxsub, code, name=[bytes], ents=[dict(sub, kind, dtype, bits, access, name=[bytes])])
  kind "val": an entry the server describes; kind "null": the server describes it as not present
  (data type 0, bit length 0); a subindex that is not in `ents` is answered with an SDO Info Error.
script: one slot per SDO-information request, in the order they arrive; keys
    err:   answer with an SDO Info Error instead (value = abort code)
    abort: answer with an SDO abort (service 2, command 0x80) instead
    mbxerr: answer with the mailbox error service (mailbox type 0, ETG.1000.4) instead
    frag2: use at least two fragments where the service data allows it
    delay: number of mailbox-status polls before each mail of the answer becomes visible
    mail:  unrelated mails ("eoe" | "emcy") put into the mailbox before the first fragment
    mid:   unrelated mails put between the first and the second fragment
    split: explicit data sizes of the fragments (overrides `choose`)
choose(op, total, fixed, cap) -> list of data sizes: how to fragment a response whose service
  data has `total` bytes of which the first `fixed` must be in the first fragment, `cap` being
  the most a fragment can carry.  Default: fill every fragment.
SDO requests (service 2) are served by coeserver.SdoServer from `values` {(index, ca, sub): bytes}.
"""
import struct

from . import coeserver

LIST_REQ, LIST_RES, OD_REQ, OD_RES, OE_REQ, OE_RES, INFO_ERR = 1, 2, 3, 4, 5, 6, 7
FIXED = {LIST_REQ: 2, OD_REQ: 6, OE_REQ: 10}
ABORT_NOOBJ = 0x06020000
ABORT_NOSUB = 0x06090011
ABORT_UNSUPPORTED = 0x06010000


def parse_mail(raw):
    """coeserver.parse_mail plus the fields OdInfo.tla looks at: `res` (bits 9..11 of the CoE
    header) and `number`"""
    m = coeserver.parse_mail(raw)
    m.setdefault("number", 0)
    m["res"] = 0
    payload = bytes(raw)[6:6 + m["len"]] if len(raw) >= 6 else b""
    if m["mt"] == 3 and len(payload) >= 2:
        coe, = struct.unpack_from("<H", payload, 0)
        m["res"] = (coe >> 9) & 7
        m["number"] = coe & 0x1ff
    for k in ("ccs", "toggle"):
        m.pop(k, None)
    return m


def max_fill(op, total, fixed, cap):
    out = []
    left = total
    while left > 0 or not out:
        n = min(left, cap)
        out.append(n)
        left -= n
    return out


class OdServer(coeserver.SdoServer):
    def __init__(self, term, dictionary, script=(), choose=None, values=None):
        super().__init__(term, values or {}, script)
        self.dictionary = dictionary
        self.choose = choose or max_fill
        self.events = []            # the trace: dict(ev="req"|"rsp"|"emptyread", m=...)
        self.on_mail = self._on_req
        self.info_requests = 0
        _, inn = term.mailboxes()
        self.mbx_in = inn[2]
        term.add_handler(inn[1], inn[1] + inn[2], self._mbx_read, None)

    # ---- logging --------------------------------------------------------------------------
    def _on_req(self, m, raw):
        self.events.append(dict(ev="req", m=parse_mail(raw)))

    def _mbx_read(self, off, n):
        t = self.term
        _, inn = t.mailboxes()
        _, start, length = inn
        if off <= start + length - 1 < off + n:           # the read that frees the mailbox
            cur = t._mbx_in_current
            if cur is None:
                self.events.append(dict(ev="emptyread", off=off, n=n))
            else:
                m = parse_mail(cur)
                m["whole"] = off == start
                self.events.append(dict(ev="rsp", m=m))
        return None

    # ---- service data ---------------------------------------------------------------------
    def find(self, index):
        for o in self.dictionary:
            if o["index"] == index:
                return o
        return None

    def service_data(self, op, body):
        """-> bytes of the response's service data, or an abort code"""
        if op == LIST_REQ:
            if len(body) < 2:
                return ABORT_UNSUPPORTED
            lt, = struct.unpack_from("<H", body, 0)
            if lt != 1:
                return ABORT_UNSUPPORTED
            return struct.pack("<H", 1) + b"".join(struct.pack("<H", o["index"]) for o in self.dictionary)
        if op == OD_REQ:
            if len(body) < 2:
                return ABORT_UNSUPPORTED
            index, = struct.unpack_from("<H", body, 0)
            o = self.find(index)
            if o is None:
                return ABORT_NOOBJ
            return struct.pack("<HHBB", index, o["dtype"], o["maxsub"], o["code"]) + bytes(o["name"])
        if op == OE_REQ:
            if len(body) < 4:
                return ABORT_UNSUPPORTED
            index, sub, vi = struct.unpack_from("<HBB", body, 0)
            o = self.find(index)
            if o is None:
                return ABORT_NOOBJ
            if vi & 0x78:
                return ABORT_UNSUPPORTED
            for e in o["ents"]:
                if e["sub"] == sub:
                    if e["kind"] == "null":
                        return struct.pack("<HBBHHH", index, sub, vi, 0, 0, 0)
                    return struct.pack("<HBBHHH", index, sub, vi, e["dtype"], e["bits"],
                                       e["access"]) + bytes(e["name"])
            return ABORT_NOSUB
        return ABORT_UNSUPPORTED

    @staticmethod
    def info(op, incomplete, left, data):
        return struct.pack("<HBBH", 8 << 12, op | (0x80 if incomplete else 0), 0, left) + bytes(data)

    # ---- the SDO information service ------------------------------------------------------
    def handle(self, m):
        if m["mt"] != 3 or m["svc"] != 8:
            return super().handle(m)
        s = self._slot()
        self.info_requests += 1
        delay = s.get("delay", 0)
        for u in s.get("mail", ()):
            self._emit(self.unrelated(u), 0, kind=u)
        op = m["cmd"] & 0x7f
        body = bytes(m["body"])[3:]                          # after reserved byte and fragments-left
        if s.get("abort"):
            self._emit(coeserver.frame(3, self._next_cnt(),
                                       coeserver.coe(2, 0x80, bytes(3) + struct.pack("<I", 0x08000000))),
                       delay, kind="abort")
            return
        if s.get("mbxerr"):
            self._emit(coeserver.frame(0, self._next_cnt(), struct.pack("<HH", 1, 2)), delay, kind="mbxerr")
            return
        data = s["err"] if s.get("err") else self.service_data(op, body)
        if isinstance(data, int):
            self._emit(coeserver.frame(3, self._next_cnt(), self.info(INFO_ERR, False, 0, struct.pack("<I", data))),
                       delay, kind="info_err")
            return
        cap = self.mbx_in - 12
        sizes = s.get("split") or self.choose(op, len(data), FIXED[op], cap)
        if s.get("frag2") and len(sizes) == 1 and FIXED[op] < len(data) <= FIXED[op] + cap:
            sizes = [FIXED[op], len(data) - FIXED[op]]
        pos = 0
        for k, n in enumerate(sizes):
            left = len(sizes) - 1 - k
            self._emit(coeserver.frame(3, self._next_cnt(), self.info(op + 1, left > 0, left, data[pos:pos + n])),
                       delay, kind="info_frag")
            pos += n
            if k == 0:
                for u in s.get("mid", ()):
                    if left > 0:
                        self._emit(self.unrelated(u), 0, kind=u)
