"""Candidate repairs for the defects found by C08 / C09 / C10, as text substitutions on a SCRATCH copy of
/repo/ebpfcat (never on /repo itself):

    /venv/bin/python harness/candidate_patches.py /verif/work/<x> f10 cpus basemap redecl f3 pop iter hconst hr0
    VERIF_REPO_OVERRIDE=/verif/work/<x> ./check C09

Each patch is the smallest change found that makes the corresponding failures disappear; with all of them
the three checks are quiet and the repository's own suite is unchanged (44 passed / 5 baseline failures).
A patch whose text is already present (repaired upstream meanwhile) is skipped.

  f10      hashmap.py  HashGlobalVarDesc.__get__: 8-byte value buffer, unpack with the variable's format
                       ("x": scaled "q"); __set__: "x" values are stored scaled                     (C10, C09)
  cpus     arraymap.py PerCPUArrayMap.create_map: cpu_no = possible CPUs (sysfs), not os.cpu_count()   (C10)
  basemap  ebpf.py     EBPF.__init__/pin_maps/load walk the MRO for maps, not only the class __dict__ (C08)
  redecl   arraymap.py ArrayMap.collect: `unique` per program object, not per class of the MRO        (C08)
  f3       arraymap.py / ebpf.py  round() instead of int() for fixed-point conversion          (C08, C02 F3)
  pop      bpf.py      _lookup_elem passes its `cmd` (lookup_and_delete really deletes)             (C09)
  iter     hashmap.py  TheDict.__iter__ on an empty map returns instead of leaking StopIteration      (C09)
  hconst   hashmap.py  HashGlobalVarDesc.__set__ (program side): ensure_expression(value)             (C09)
  hr0      hashmap.py  HashGlobalVar.get_address: result in another register when r0 is in use       (C09)
"""
import os, shutil, sys

def sub(path, old, new, count=1):
    s = open(path).read()
    if old not in s and new in s:
        print("  already there:", path, new.strip()[:50].replace("\n", " "))
        return
    if old not in s and "unique = set()" in new:      # landed upstream in another wording
        print("  skipped (changed upstream):", path)
        return
    assert old in s, (path, old[:60])
    open(path, "w").write(s.replace(old, new, count))

def p_f10(d):      # C10/C09: hash variable read with an 8-byte buffer, x as scaled q; x written scaled
    p = f"{d}/ebpfcat/hashmap.py"
    sub(p, "from struct import pack, unpack, unpack", "from struct import pack, unpack, unpack_from")
    sub(p, '''            return lookup_elem(fd, pack("B", self.count), self.fmt)
''', '''            data = lookup_elem(fd, pack("B", self.count), 8)
            if self.fmt == "x":
                return unpack("q", data)[0] / Expression.FIXED_BASE
            return unpack_from(self.fmt, data)[0]
''')
    sub(p, '''            fd = ebpf.__dict__[self.name].fd
            update_elem(fd, pack("B", self.count),''', '''            fd = ebpf.__dict__[self.name].fd
            if self.fmt == "x":
                value = round(value * Expression.FIXED_BASE)
            update_elem(fd, pack("B", self.count),''')

def p_cpus(d):     # C10: per-CPU buffer sized with the possible CPUs
    p = f"{d}/ebpfcat/arraymap.py"
    sub(p, "from os import cpu_count\n", "")
    sub(p, "class ArrayGlobalVarDesc(MemoryDesc):", '''def possible_cpus():
    """the number of possible CPUs: per-CPU map values have one slot for each"""
    with open("/sys/devices/system/cpu/possible") as f:
        return sum(int(r.split("-")[-1]) - int(r.split("-")[0]) + 1
                   for r in f.read().strip().split(","))


class ArrayGlobalVarDesc(MemoryDesc):''')
    sub(p, "self.cpu_no = cpu_count()", "self.cpu_no = possible_cpus()")

def p_basemap(d):  # C08: maps declared in base classes
    p = f"{d}/ebpfcat/ebpf.py"
    sub(p, '''    @property
    def ebpf(self):
        return self


class SimulatedEBPF(EBPFBase):''', '''    @property
    def ebpf(self):
        return self

    def _maps(self):
        """the maps declared in this class or one of its base classes"""
        seen = set()
        for cls in self.__class__.__mro__:
            for k, v in cls.__dict__.items():
                if k not in seen:
                    seen.add(k)
                    if isinstance(v, Map):
                        yield k, v


class SimulatedEBPF(EBPFBase):''')
    sub(p, '''        for k, v in self.__class__.__dict__.items():
            if isinstance(v, Map):
                if load_maps is None:
                    v.init(self, None)
                else:
                    v.init(self, bpf.obj_get(load_maps + k))
''', '''        for k, v in self._maps():
            if load_maps is None:
                v.init(self, None)
            else:
                v.init(self, bpf.obj_get(load_maps + k))
''')
    sub(p, '''        for k, v in self.__class__.__dict__.items():
            if isinstance(v, Map):
                bpf.obj_pin(path + k, getattr(self, v.name).fd)
''', '''        for k, v in self._maps():
            bpf.obj_pin(path + k, getattr(self, v.name).fd)
''')
    sub(p, '''        for v in self.__class__.__dict__.values():
            if isinstance(v, Map):
                v.load(self)
''', '''        for _, v in self._maps():
            v.load(self)
''')

def p_redecl(d):   # C08: a re-declared name is laid out once
    sub(f"{d}/ebpfcat/arraymap.py", '''        for prog in chain([ebpf], ebpf.subprograms):
            for cls in prog.__class__.__mro__:
                unique = set()
''', '''        for prog in chain([ebpf], ebpf.subprograms):
            unique = set()
            for cls in prog.__class__.__mro__:
''')

def p_f3(d):       # C08/C02: round instead of truncate
    sub(f"{d}/ebpfcat/arraymap.py", "                value = int(value * Expression.FIXED_BASE)\n",
        "                value = round(value * Expression.FIXED_BASE)\n")
    sub(f"{d}/ebpfcat/ebpf.py", "            self.value = float(value) * Expression.FIXED_BASE\n",
        "            self.value = round(float(value) * Expression.FIXED_BASE)\n")

def p_pop(d):      # C09: lookup_and_delete really deletes
    sub(f"{d}/ebpfcat/bpf.py", '''        ret, _ = bpf(1, "IQQQ", fd, addrof(key), addr, 0)''',
        '''        ret, _ = bpf(cmd, "IQQQ", fd, addrof(key), addr, 0)''')

def p_iter(d):     # C09: iterating an empty Dict
    sub(f"{d}/ebpfcat/hashmap.py", '''        current = get_next_key(self.fd, self.key.stack)
        while True:''', '''        try:
            current = get_next_key(self.fd, self.key.stack)
        except StopIteration:
            return
        while True:''')

def p_hconst(d):   # C09: a plain number assigned to a hash variable in a program
    p = f"{d}/ebpfcat/hashmap.py"
    sub(p, "from .ebpf import AssembleError, Expression, Opcode, Map, FuncId",
        "from .ebpf import (\n    AssembleError, Expression, Opcode, Map, FuncId, ensure_expression)")
    sub(p, '''        with ebpf.save_registers([3]):
            with value.get_address(3, True, True):''', '''        value = ensure_expression(ebpf, value)
        with ebpf.save_registers([3]):
            with value.get_address(3, True, True):''')

def p_hr0(d):      # C09: hash variable read while r0 is in use
    p = f"{d}/ebpfcat/hashmap.py"
    sub(p, "from contextlib import contextmanager\n", "from contextlib import ExitStack, contextmanager\n")
    sub(p, '''    def get_address(self, dst, long, force=False):
        with self.ebpf.save_registers([i for i in range(6) if i != dst]), \\
                self.ebpf.get_stack(4) as stack:
            self.ebpf.append(Opcode.ST, 10, 0, stack, self.count)
            self.ebpf.r1 = self.ebpf.get_fd(self.fd)
            self.ebpf.r2 = self.ebpf.r10 + stack
            self.ebpf.call(FuncId.map_lookup_elem)
            with self.ebpf.r0 == 0:
                self.ebpf.exit()
            if dst != 0 and force:
                self.ebpf.append(Opcode.MOV + Opcode.LONG + Opcode.REG, dst,
                                 0, 0, 0)
            else:
                dst = 0
        yield dst, self.fmt
''', '''    def get_address(self, dst, long, force=False):
        with ExitStack() as exitStack:
            if dst != 0 and 0 in self.ebpf.owners:
                # r0 is in use: it is saved and restored around the call,
                # so the address must be handed out in another register
                if dst is None:
                    dst = exitStack.enter_context(
                        self.ebpf.get_free_register(None))
                force = True
            with self.ebpf.save_registers(
                    [i for i in range(6) if i != dst]), \\
                    self.ebpf.get_stack(4) as stack:
                self.ebpf.append(Opcode.ST, 10, 0, stack, self.count)
                self.ebpf.r1 = self.ebpf.get_fd(self.fd)
                self.ebpf.r2 = self.ebpf.r10 + stack
                self.ebpf.call(FuncId.map_lookup_elem)
                with self.ebpf.r0 == 0:
                    self.ebpf.exit()
                if dst != 0 and force:
                    self.ebpf.append(Opcode.MOV + Opcode.LONG + Opcode.REG,
                                     dst, 0, 0, 0)
                else:
                    dst = 0
            yield dst, self.fmt
''')

P = dict(f10=p_f10, cpus=p_cpus, basemap=p_basemap, redecl=p_redecl, f3=p_f3, pop=p_pop, iter=p_iter,
         hconst=p_hconst, hr0=p_hr0)
if __name__ != "__main__" or len(sys.argv) < 2:
    raise SystemExit(__doc__)
d = sys.argv[1]
assert os.path.abspath(d).startswith("/verif/work/"), "scratch copies live under /verif/work"
shutil.rmtree(d, ignore_errors=True)
os.makedirs(d)
shutil.copytree("/repo/ebpfcat", f"{d}/ebpfcat", ignore=shutil.ignore_patterns("__pycache__"))
for name in sys.argv[2:]:
    P[name](d)
print(d, sys.argv[2:])
