"""The SII (EEPROM) interface of an EtherCAT slave controller, register by register, for X02.

`SiiEsc` is a harness/simbus.SimTerminal whose registers 0x0500 .. 0x050F behave as the ESC of
spec/SiiAccess.tla does (the same text, in Python; TLC checks at every recorded read that what
this simulator showed is what the specification's ESC shows, so a disagreement between the two
is a rejected trace, never a silent difference):

  0x0500  bit 0 EEPROM assigned to the PDI, bit 1 force (resets 0x0501.0)
  0x0501  bit 0 PDI has taken the access               (master owns iff both bits 0)
  0x0502  bit 0 write enable (same datagram as the command; reads 1 only under PDI control),
          bit 6 eight bytes per read command
  0x0503  bits 0-2 command (0 clear errors, 1 read, 2 write, 4 reload), bit 3 checksum error,
          bit 4 device information not loaded, bit 5 command failed (no acknowledge / invalid),
          bit 6 write without write enable, bit 7 busy
  0x0504  word address (32 bit)      0x0508  data (8 bytes)

The environment's choices come from a script: `busy` = polls each accepted command stays busy
(cyclic), `errs` = which of the first accepted commands end with bit 13, `init` = polls an
earlier command is still busy at the start.  Undefined register contents (data while busy, after
a failed read, the upper half on a 4-byte interface) are shown as JUNK.

Every access is appended to `events` in the format of spec/SiiAccessTrace.tla.
"""
from . import simbus

LO, CTL, CMD, ADDR, DATA, HI = 0x500, 0x502, 0x503, 0x504, 0x508, 0x510
JUNK = 0xEE


class SiiEsc(simbus.SimTerminal):
    def __init__(self, image, cfg, busy, errs, name="T", station=0):
        super().__init__(name, station=station)
        self.ee = bytearray(image)
        self.cap8 = bool(cfg["cap8"])
        self.sticky = bool(cfg["sticky"])
        self.ck = bool(cfg["ck"])
        self.dev = bool(cfg["dev"])
        self.cfg0 = 1 if cfg["own"] > 0 else 0
        self.force = 0
        self.pdiacc = 1 if cfg["own"] == 2 else 0
        self.busy_pat = list(busy) or [0]
        self.err_pat = list(errs)
        self.accepted = 0
        self.busy = cfg["init"] > 0
        self.cmd = 1 if self.busy else 0
        self.left = cfg["init"]         # polls that still show busy
        self.fail = False               # how the command in execution will end
        self.addr = bytearray(4)
        self.data = [None] * 8          # None = undefined
        self.eack = False
        self.ewe = False
        self.events = []
        self.in_call = False

    # ---- the ESC ---------------------------------------------------------------------------
    def owns(self):
        return self.cfg0 == 0 and self.pdiacc == 0

    def _finish(self):
        cmd, self.busy, self.cmd = self.cmd, False, 0
        if self.fail:
            self.eack = True
            if cmd == 1:
                self.data = [None] * 8
            return
        inrange = self.addr[2] == 0 and self.addr[3] == 0
        a = 2 * (self.addr[0] | self.addr[1] << 8)
        if cmd == 1:
            w = 8 if self.cap8 else 4
            if inrange:
                got = [self.ee[a + k] if a + k < len(self.ee) else 0xff for k in range(w)]
            else:
                got = [0xff] * w
            self.data = got + [None] * (8 - w)
        elif cmd == 2:
            if inrange and a + 2 <= len(self.ee):
                self.ee[a] = self.data[0] if self.data[0] is not None else JUNK
                self.ee[a + 1] = self.data[1] if self.data[1] is not None else JUNK

    def _poll(self):
        """the master looks at the interface: a busy command shows busy `left` more times"""
        if self.busy:
            if self.left > 0:
                self.left -= 1
            else:
                self._finish()

    def _start(self, c):
        self.busy, self.cmd = True, c
        self.eack = self.ewe = False
        if c == 1:
            self.data = [None] * 8
        k = self.accepted
        self.accepted += 1
        self.left = self.busy_pat[k % len(self.busy_pat)]
        self.fail = k < len(self.err_pat) and bool(self.err_pat[k])

    def _reg(self, x):
        if x == 0x500:
            return self.cfg0 | self.force << 1
        if x == 0x501:
            return self.pdiacc
        if x == 0x502:
            return (1 if self.cfg0 else 0) | (0x40 if self.cap8 else 0)
        if x == 0x503:
            return (self.cmd | (8 if self.ck else 0) | (16 if self.dev else 0)
                    | (32 if self.eack else 0) | (64 if self.ewe else 0) | (128 if self.busy else 0))
        if x < 0x508:
            return self.addr[x - 0x504]
        v = self.data[x - 0x508]
        return JUNK if v is None else v

    def _sii_rd(self, off, n):
        self._poll()
        return bytes(self._reg(off + k) for k in range(n))

    def _sii_wr(self, off, d):
        def cov(x):
            return off <= x < off + len(d)

        def at(x):
            return d[x - off]
        if cov(0x500):
            b = at(0x500)
            self.cfg0, self.force = b & 1, b >> 1 & 1
            if self.force:
                self.pdiacc = 0
        if not self.owns() or self.busy:
            return
        for k in range(4):
            if cov(ADDR + k):
                self.addr[k] = at(ADDR + k)
        for k in range(8):
            if cov(DATA + k):
                self.data[k] = at(DATA + k)
        if not cov(CMD):
            return
        c = at(CMD) & 7
        we = cov(CTL) and at(CTL) & 1
        if c == 0:
            self.eack = self.ewe = False
        elif self.eack and self.sticky:
            pass
        elif c in (1, 4) or (c == 2 and we):
            self._start(c)
        elif c == 2:
            self.ewe, self.eack = True, False
        else:
            self.eack = True

    # ---- the bus side ----------------------------------------------------------------------
    def read(self, off, n):
        lo, hi = max(off, LO), min(off + n, HI)
        if lo >= hi:
            if self.in_call:
                self.events.append(dict(k="other", rw="r", off=off, n=n))
            return super().read(off, n)
        if off < LO or off + n > HI:
            self.events.append(dict(k="other", rw="r", off=off, n=n))
        got = self._sii_rd(lo, hi - lo)
        self.events.append(dict(k="rd", off=lo, data=list(got)))
        res = bytearray(self.mem[off:off + n])
        res[lo - off:hi - off] = got
        return bytes(res)

    def write(self, off, data):
        data = bytes(data)
        lo, hi = max(off, LO), min(off + len(data), HI)
        if lo >= hi:
            if self.in_call:
                self.events.append(dict(k="other", rw="w", off=off, n=len(data)))
            return super().write(off, data)
        if off < LO or off + len(data) > HI:
            self.events.append(dict(k="other", rw="w", off=off, n=len(data)))
        self.events.append(dict(k="wr", off=lo, data=list(data[lo - off:hi - off])))
        self._sii_wr(lo, data[lo - off:hi - off])
