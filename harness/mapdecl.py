"""Random map declarations as plain data, and the REAL ebpfcat classes built from them (C08-C10).

A declaration is JSON-serialisable:
    dict(arrays=[dict(name, percpu, vars=[dict(name, fmt)])],
         hash=dict(name, vars=[dict(name, fmt, default)]) | None,
         dicts=[dict(name, key=[[member, fmt], ...], value=[...], size, lru)])
`build(decl, ...)` makes the Structure subclasses and the EBPF / XDP subclass with `type()`; nothing
of ebpfcat is re-implemented here.  Names avoid every attribute EBPF itself defines (r, w, x, tmp...)."""

FMT_SIZE = {"b": 1, "B": 1, "h": 2, "H": 2, "i": 4, "I": 4, "q": 8, "Q": 8, "x": 8}
INT_FMTS = "bBhHiIqQ"


ORDERS = ("<", ">", "!")
# every integer format with an explicit byte order: the same values, other bytes in memory (and another path
# through the library wherever it looks at len(fmt) or fmt[0])
ORDERED_FMTS = [o + c for o in ORDERS for c in INT_FMTS]


def fmt_size(fmt):
    """bytes of one element of a format (a byte-order prefix does not change it)"""
    return FMT_SIZE[fmt[-1]]


def fmt_range(fmt):
    n = fmt_size(fmt) * 8
    if fmt[-1].islower():
        return -(1 << (n - 1)), (1 << (n - 1)) - 1
    return 0, (1 << n) - 1


# scaled values n whose decimal n / 100000, multiplied back as a float, falls just below n (0.29, 0.57, 1.15, ...):
# a conversion that truncates instead of rounding is wrong exactly on these
TRICKY_FIXED = [n for n in [29000, 57000, 115000, 230000, 402000, -113000, 58000, 1001, 33001, 10000001] + list(range(1, 200000, 7))
                if int(n / 100000 * 100000) != n][:48]


def rand_value(rng, fmt):
    """an integer in the range of an integer format: small ones, boundaries and random ones"""
    lo, hi = fmt_range(fmt)
    r = rng.random()
    if r < 0.3:
        return rng.choice([v for v in (0, 1, 2, 7, -1, -2, 100) if lo <= v <= hi])
    if r < 0.55:
        return rng.choice([lo, hi, hi - 1, lo + 1, hi // 2, hi // 2 + 1])
    return rng.randint(lo, hi)


def rand_struct(rng, maxbytes=24, fmts=INT_FMTS, maxmembers=5):
    """[[name, fmt], ...] such that every member is naturally aligned ("structures must be packed")"""
    out, off = [], 0
    for i in range(rng.randint(1, maxmembers)):
        ok = [f for f in fmts if off % fmt_size(f) == 0 and off + fmt_size(f) <= maxbytes]
        if not ok:
            break
        f = rng.choice(ok)
        out.append([f"m{i}", f])
        off += fmt_size(f)
    return out


def struct_size(members):
    return sum(fmt_size(f) for _, f in members)


def rand_decl(rng, arrays=True, percpu=True, hashvars=True, dicts=True, hash_fmts=INT_FMTS + "x",
              array_fmts=("B", "h", "I", "q", "x", "3H", "b", "H", "i", "Q"), member_fmts=INT_FMTS, ordered=0.0):
    """ordered: probability with which a declaration draws its formats from the pools widened by every
    byte-order-prefixed integer format (hash variables, array / per-CPU variables, Structure members)"""
    hash_fmts, array_fmts, member_fmts = list(hash_fmts), list(array_fmts), list(member_fmts)
    if rng.random() < ordered:
        hash_fmts = hash_fmts + ORDERED_FMTS + ORDERED_FMTS
        array_fmts = array_fmts + ORDERED_FMTS
        member_fmts = member_fmts + ORDERED_FMTS
    d = dict(arrays=[], hash=None, dicts=[])
    if arrays and rng.random() < 0.6:
        d["arrays"].append(dict(name="am", percpu=False,
                                vars=[dict(name=f"a{i}", fmt=rng.choice(array_fmts))
                                      for i in range(rng.randint(1, 4))]))
    if percpu and rng.random() < 0.6:
        d["arrays"].append(dict(name="pm", percpu=True,
                                vars=[dict(name=f"p{i}", fmt=rng.choice(array_fmts))
                                      for i in range(rng.randint(1, 3))]))
    if hashvars and rng.random() < 0.8:
        vs = []
        for i in range(rng.randint(1, 5)):
            f = rng.choice(hash_fmts)
            if f == "x":
                default = rng.choice([0, 3, rng.randint(-1000, 1000), rng.randint(-10 ** 7, 10 ** 7) / 100000,
                                      rng.choice(TRICKY_FIXED) / 100000, rng.choice(TRICKY_FIXED) / 100000])
            else:
                default = rng.choice([0, rand_value(rng, f)])
            vs.append(dict(name=f"h{i}", fmt=f, default=default))
        d["hash"] = dict(name="hm", vars=vs)
    if dicts:
        for i in range(rng.choice([0, 1, 1, 2])):
            d["dicts"].append(dict(name=f"d{i}", key=rand_struct(rng, maxbytes=16, maxmembers=3, fmts=member_fmts),
                                   value=rand_struct(rng, maxbytes=24, maxmembers=4, fmts=member_fmts),
                                   size=rng.randint(1, 4), lru=rng.random() < 0.15))
    if not (d["arrays"] or d["hash"] or d["dicts"]):
        return rand_decl(rng, arrays, percpu, hashvars, dicts, hash_fmts, array_fmts, member_fmts, 0.0)
    return d


def make_struct(name, members):
    from ebpfcat.ebpf import Structure, Member
    return type(name, (Structure,), {m: Member(f) for m, f in members})


class Built:
    """the class made from a declaration plus the Structure classes of its Dicts"""
    def __init__(self, cls, structs, sibling=None):
        self.cls = cls
        self.structs = structs                  # dict name -> (KeyClass, ValueClass)
        self.sibling = sibling                  # a second subclass of the same base class, if declared


def build(decl, base=None, program=None, name="Decl", extra=None, sibling_program=None):
    from ebpfcat.ebpf import EBPF
    from ebpfcat.arraymap import ArrayMap, PerCPUArrayMap
    from ebpfcat.hashmap import HashMap, Dict
    ns = dict(license="GPL")
    structs = {}
    # the order of the namespace is the order of map creation (EBPF.__init__ walks __dict__)
    for a in decl["arrays"]:
        m = PerCPUArrayMap() if a["percpu"] else ArrayMap()
        ns[a["name"]] = m
        for v in a["vars"]:
            ns[v["name"]] = m.globalVar(v["fmt"])
    sibling_ns = None
    if decl["hash"]:
        # decl["hash"]["split"] (optional) spreads the hash variables over a class hierarchy:
        #   kind "own"      everything in the program class (the default)
        #        "base"     the HashMap and all variables in a base class, the program class only inherits
        #        "extend"   the HashMap and the first nbase variables in the base class, the rest added by the
        #                   program class to the inherited map
        #        "siblings" like "extend", and a second subclass of the base adds variables of its own (sib)
        hm = HashMap()
        split = decl["hash"].get("split") or dict(kind="own")
        hvars = decl["hash"]["vars"]
        nbase = 0 if split["kind"] == "own" else (len(hvars) if split["kind"] == "base" else split["nbase"])
        first = [(v["name"], hm.globalVar(v["fmt"], v["default"])) for v in hvars[:nbase]]

        def own():
            ns.update((v["name"], hm.globalVar(v["fmt"], v["default"])) for v in hvars[nbase:])

        def sib():
            return dict((v["name"], hm.globalVar(v["fmt"], v["default"])) for v in split.get("sib", []))
        if split["kind"] == "own":
            ns[decl["hash"]["name"]] = hm
            own()
        else:
            base_ns = dict(license="GPL")
            base_ns[decl["hash"]["name"]] = hm
            base_ns.update(first)
            base = type(name + "Base", (base or EBPF,), base_ns)
            if split["kind"] == "siblings" and split.get("sib_first"):
                sibling_ns = sib()               # the class body of the sibling runs first
                own()
            else:
                own()
                if split["kind"] == "siblings":
                    sibling_ns = sib()
    for dd in decl["dicts"]:
        K = make_struct(dd["name"] + "Key", dd["key"])
        V = make_struct(dd["name"] + "Value", dd["value"])
        structs[dd["name"]] = (K, V)
        ns[dd["name"]] = Dict(key=K, value=V, size=dd["size"], lru=dd["lru"])
    if program is not None:
        ns["program"] = program
    if extra:
        ns.update(extra)
    sibling = None
    if sibling_ns is not None:
        sibling_ns["license"] = "GPL"
        if sibling_program is not None:
            sibling_ns["program"] = sibling_program
        sibling = type(name + "Sibling", (base,), sibling_ns)
    return Built(type(name, (base or EBPF,), ns), structs, sibling)
