"""Raw bpf(2) access, independent of ebpfcat.bpf: PROG_LOAD with verifier log, PROG_TEST_RUN
returning the full output packet (ebpfcat.bpf.prog_test_run truncates at the first NUL), map
create / lookup / update.  available() says whether this sandbox lets us use it; absence
downgrades checks (no kernel cross-check), it never fails them."""
import ctypes
import errno
import os
import platform
import struct

SYS_BPF = {"x86_64": 321, "aarch64": 280, "armv7l": 386}.get(platform.machine())
_libc = ctypes.CDLL("libc.so.6", use_errno=True)
XDP = 6


class VerifierReject(Exception):
    def __init__(self, err, log):
        super().__init__(f"errno {err}: {log[-400:]}")
        self.errno = err
        self.log = log


def _bpf(cmd, attr):
    buf = ctypes.create_string_buffer(attr, max(len(attr), 128))
    r = _libc.syscall(SYS_BPF, ctypes.c_int(cmd), buf, len(buf))
    if r < 0:
        e = ctypes.get_errno()
        raise OSError(e, os.strerror(e))
    return r, buf.raw


def _addr(b):
    return ctypes.addressof(b)


def prog_load(insns, prog_type=XDP, license=b"GPL", log_size=1 << 20):
    code = ctypes.create_string_buffer(bytes(insns), len(insns))
    lic = ctypes.create_string_buffer(license)
    log = ctypes.create_string_buffer(log_size)
    attr = struct.pack("<IIQQIIQII16sII", prog_type, len(insns) // 8, _addr(code), _addr(lic),
                       1, log_size, _addr(log), 0, 0, b"verif", 0, 0)
    try:
        fd, _ = _bpf(5, attr)
    except OSError as e:
        raise VerifierReject(e.errno, log.value.decode("utf8", "replace")) from None
    return fd


def test_run(fd, data_in, repeat=1):
    din = ctypes.create_string_buffer(bytes(data_in), len(data_in))
    dout = ctypes.create_string_buffer(len(data_in) + 256)
    attr = bytearray(struct.pack("<IIIIQQII", fd, 0, len(data_in), len(dout), _addr(din), _addr(dout),
                                 repeat, 0)).ljust(80, b"\0")
    _, raw = _bpf(10, bytes(attr))
    _, retval, _, size_out = struct.unpack_from("<IIII", raw, 0)
    return retval, dout.raw[:size_out]


def map_create(map_type, key_size, value_size, max_entries, flags=0):
    fd, _ = _bpf(0, struct.pack("<IIIII", map_type, key_size, value_size, max_entries, flags))
    return fd


def map_lookup(fd, key, value_size):
    k = ctypes.create_string_buffer(bytes(key), len(key))
    v = ctypes.create_string_buffer(value_size)
    try:
        _bpf(1, struct.pack("<I4xQQQ", fd, _addr(k), _addr(v), 0))
    except OSError as e:
        if e.errno == errno.ENOENT:
            return None
        raise
    return v.raw


def map_update(fd, key, value, flags=0):
    k = ctypes.create_string_buffer(bytes(key), len(key))
    v = ctypes.create_string_buffer(bytes(value), len(value))
    _bpf(2, struct.pack("<I4xQQQ", fd, _addr(k), _addr(v), flags))


_avail = None


def available():
    """can we create a map, load a trivial XDP program and test-run it?"""
    global _avail
    if _avail is None:
        try:
            if SYS_BPF is None:
                raise OSError("unknown platform")
            fd = map_create(2, 4, 8, 1)
            os.close(fd)
            # r0 = 2 ; exit
            p = prog_load(bytes.fromhex("b700000002000000" "9500000000000000"))
            rv, out = test_run(p, bytes(64))
            os.close(p)
            _avail = rv == 2 and len(out) == 64
        except Exception:
            _avail = False
    return _avail
