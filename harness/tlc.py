"""Run TLC / SANY under a timeout and parse what it printed.

Every invocation gets a private work directory under /verif/work (never /tmp),
into which the spec modules and any generated constant modules / data files are
copied; it is removed afterwards unless keep=True.
"""
import json
import itertools
import os
import re
import shutil
import subprocess
import time

VERIF = os.path.dirname(os.path.dirname(os.path.abspath(__file__)))
SPEC = os.path.join(VERIF, "spec")
WORK = os.path.join(VERIF, "work")
JARS = "/opt/veriftools/tla/tla2tools.jar:/opt/veriftools/tla/CommunityModules-deps.jar"


class MachineryError(Exception):
    """TLC/SANY/harness failure: never a verdict about the code (exit 2)."""


class TLCResult:
    def __init__(self, out, rc, wall):
        self.out = out
        self.rc = rc
        self.wall = wall
        m = re.findall(r"(\d+) states generated, (\d+) distinct states found", out)
        self.generated = int(m[-1][0]) if m else 0
        self.distinct = int(m[-1][1]) if m else 0
        self.invariant_violated = re.findall(r"Invariant (\S+) is violated", out)
        self.action_violated = re.findall(r"Action property (\S+) is violated", out)
        self.temporal_violated = "Temporal properties were violated" in out
        self.deadlock = "Deadlock reached" in out
        self.finished = "Model checking completed" in out or \
            "Finished computing initial states" in out and "Finished in" in out
        self.error = None
        # TLC's own error lines start a line; "TypeError: ..." inside a printed value is data
        m = re.search(r"^Error: (.*)", out, re.M)
        if m and not (self.invariant_violated or self.action_violated
                      or self.temporal_violated or self.deadlock):
            self.error = out[m.start():m.start() + 2000]
        self.coverage = {}
        for name, a, b in re.findall(r"<(\w+) line \d+, col \d+ to line \d+, col \d+ of module \w+>: (\d+):(\d+)", out):
            self.coverage[name] = self.coverage.get(name, 0) + int(b)

    @property
    def ok(self):
        return (self.rc == 0 and not self.invariant_violated and not self.action_violated
                and not self.temporal_violated and not self.deadlock and self.error is None)

    def printed(self):
        """values printed with PrintT, one per line, as raw text (possibly multi-line values
        are joined by bracket matching)"""
        vals = []
        buf = None
        depth = 0
        for line in self.out.splitlines():
            if buf is None:
                if line.startswith("<<") or line.startswith('"') or line.startswith("["):
                    buf = line
                    depth = _depth(line)
                    if depth <= 0:
                        vals.append(buf)
                        buf = None
            else:
                buf += " " + line.strip()
                depth += _depth(line)
                if depth <= 0:
                    vals.append(buf)
                    buf = None
        return vals

    def counterexample(self):
        m = re.search(r"(^Error: .*?)(?=\n\d+ states generated|\Z)", self.out, re.S | re.M)
        return m.group(1)[:20000] if m else ""


def _depth(s):
    d = 0
    instr = False
    i = 0
    while i < len(s):
        c = s[i]
        if instr:
            if c == "\\":
                i += 1
            elif c == '"':
                instr = False
        elif c == '"':
            instr = True
        elif c in "<[({":
            if c == "<" and s[i:i + 2] != "<<":
                i += 1
                continue
            d += 1
            if c == "<":
                i += 1
        elif c in ">])}":
            if c == ">" and s[i:i + 2] != ">>":
                i += 1
                continue
            d -= 1
            if c == ">":
                i += 1
        i += 1
    return d


_serial = itertools.count(1)        # next() is atomic: unique names also when several threads ask at once


def workdir(tag):
    d = os.path.join(WORK, f"{tag}-{os.getpid()}-{int(time.time() * 1000) % 100000000}-{next(_serial)}")
    os.makedirs(d, exist_ok=True)
    return d


def stage(wd, modules=None):
    """copy all spec modules (cheap: a few hundred kB) into the work dir"""
    for f in os.listdir(SPEC):
        if f.endswith(".tla") or f.endswith(".cfg"):
            shutil.copy(os.path.join(SPEC, f), os.path.join(wd, f))


def run(wd, module, cfg=None, workers=None, timeout=600, simulate=None, depth=None,
        seed=None, coverage=False, deadlock=True, env=None, xss="64m", heap=None,
        extra=()):
    """run TLC on <wd>/<module>.tla with <cfg> (file name inside wd)."""
    if workers is None:
        workers = min(16, os.cpu_count() or 1)
    meta = os.path.join(wd, f"meta-{os.getpid()}-{time.time_ns() % 10**9}-{next(_serial)}")
    cmd = ["timeout", "-k", "5", str(int(timeout)),
           "java", f"-Xss{xss}", "-XX:+UseParallelGC"]
    if heap:
        cmd.append(f"-Xmx{heap}")
    cmd += ["-cp", JARS, "tlc2.TLC", "-workers", str(workers), "-metadir", meta,
            "-noGenerateSpecTE"]
    if cfg:
        cmd += ["-config", cfg]
    if not deadlock:
        cmd += ["-deadlock"]
    if coverage:
        cmd += ["-coverage", "1"]
    if simulate:
        cmd += ["-simulate", simulate]
    if depth:
        cmd += ["-depth", str(depth)]
    if seed is not None:
        cmd += ["-seed", str(seed)]
    cmd += list(extra)
    cmd += [module]
    e = dict(os.environ)
    e.pop("JAVA_TOOL_OPTIONS", None)
    if env:
        e.update(env)
    t0 = time.time()
    p = subprocess.run(cmd, cwd=wd, env=e, stdout=subprocess.PIPE, stderr=subprocess.STDOUT,
                       text=True, errors="replace")
    wall = time.time() - t0
    shutil.rmtree(meta, ignore_errors=True)
    if p.returncode in (124, 137):
        raise MachineryError(f"TLC timed out after {timeout}s on {module}")
    res = TLCResult(p.stdout, p.returncode, wall)
    if res.error and ("Parsing or semantic analysis failed" in p.stdout
                      or "Fatal error" in p.stdout or "java.lang" in res.error
                      or "was not able to" in p.stdout):
        raise MachineryError(f"TLC failed on {module}:\n{p.stdout[-4000:]}")
    return res


def require_clean(res, what):
    """raise MachineryError if TLC reported an evaluation error (as opposed to a property verdict)"""
    if res.error:
        raise MachineryError(f"TLC error in {what}:\n{res.error}\n{res.out[-3000:]}")
    return res


def sany(wd, module):
    p = subprocess.run(["timeout", "120", "java", "-cp", JARS, "tla2sany.SANY", module + ".tla"],
                       cwd=wd, stdout=subprocess.PIPE, stderr=subprocess.STDOUT, text=True)
    ok = p.returncode == 0 and "Semantic errors" not in p.stdout and "Parse Error" not in p.stdout \
        and "Fatal" not in p.stdout and "Could not" not in p.stdout
    return ok, p.stdout


def cleanup(wd):
    shutil.rmtree(wd, ignore_errors=True)


# ---------- writing Python data as TLA+ -------------------------------------------------

def tla(v):
    """Python value -> TLA+ expression text (bytes -> <<..>> of 0..255; dict -> record or function)"""
    if isinstance(v, bool):
        return "TRUE" if v else "FALSE"
    if isinstance(v, int):
        if not -2 ** 31 < v < 2 ** 31:
            raise ValueError(f"integer {v} does not fit a TLC int: use limbs")
        return str(v)
    if isinstance(v, str):
        return json.dumps(v)
    if isinstance(v, (bytes, bytearray)):
        return "<<" + ",".join(str(b) for b in v) + ">>"
    if isinstance(v, (list, tuple)):
        return "<<" + ",".join(tla(x) for x in v) + ">>"
    if isinstance(v, (set, frozenset)):
        return "{" + ",".join(tla(x) for x in sorted(v, key=repr)) + "}"
    if isinstance(v, dict):
        if not v:
            return "<<>>"
        if all(isinstance(k, str) and re.fullmatch(r"[A-Za-z_][A-Za-z0-9_]*", k) for k in v):
            return "[" + ",".join(f"{k} |-> {tla(x)}" for k, x in v.items()) + "]"
        return "(" + " @@ ".join(f"({tla(k)} :> {tla(x)})" for k, x in v.items()) + ")"
    if v is None:
        return '"none"'
    raise TypeError(type(v))


def write_module(wd, name, defs, extends=("Integers", "Sequences", "TLC")):
    """write a constant module: defs is {name: python value or raw TLA text (str starting with '\\*raw ')}"""
    lines = [f"---- MODULE {name} ----", "EXTENDS " + ", ".join(extends)]
    for k, v in defs.items():
        if isinstance(v, Raw):
            lines.append(f"{k} == {v.text}")
        else:
            lines.append(f"{k} == {tla(v)}")
    lines.append("====")
    with open(os.path.join(wd, name + ".tla"), "w") as f:
        f.write("\n".join(lines) + "\n")


class Raw:
    def __init__(self, text):
        self.text = text


class _P:
    """recursive-descent parser for values as TLC prints them: <<..>>, {..}, [a |-> v, ..],
    (k :> v @@ ..), strings, integers, TRUE/FALSE, model values / identifiers"""

    def __init__(self, text):
        self.t = text
        self.i = 0

    def ws(self):
        while self.i < len(self.t) and self.t[self.i] in " \t\r\n":
            self.i += 1

    def value(self):
        self.ws()
        t, i = self.t, self.i
        if t.startswith("<<", i):
            self.i += 2
            return self.seq(">>")
        if t[i] == "{":
            self.i += 1
            return self.seq("}")
        if t[i] == "[":
            self.i += 1
            out = {}
            self.ws()
            while not self.t.startswith("]", self.i):
                m = re.compile(r"\s*([A-Za-z_][A-Za-z0-9_]*)\s*\|->").match(self.t, self.i)
                if not m:
                    raise ValueError(f"record field expected at {self.i}: {self.t[self.i:self.i + 40]!r}")
                self.i = m.end()
                out[m.group(1)] = self.value()
                self.ws()
                if self.t.startswith(",", self.i):
                    self.i += 1
                self.ws()
            self.i += 1
            return out
        if t[i] == "(":
            self.i += 1
            out = {}
            while True:
                k = self.value()
                self.ws()
                if not self.t.startswith(":>", self.i):
                    raise ValueError(f":> expected at {self.i}")
                self.i += 2
                out[json.dumps(k) if not isinstance(k, (str, int)) else k] = self.value()
                self.ws()
                if self.t.startswith("@@", self.i):
                    self.i += 2
                    continue
                if self.t.startswith(")", self.i):
                    self.i += 1
                    return out
                raise ValueError(f"@@ or ) expected at {self.i}")
        if t[i] == '"':
            j = i + 1
            while t[j] != '"':
                j += 2 if t[j] == "\\" else 1
            self.i = j + 1
            sv = json.loads(t[i:j + 1])
            if sv[:1] in "[{" and sv[-1:] in "]}":
                try:
                    return json.loads(sv)
                except ValueError:
                    pass
            return sv
        m = re.compile(r"-?\d+|[A-Za-z_][A-Za-z0-9_]*").match(t, i)
        if not m:
            raise ValueError(f"value expected at {i}: {t[i:i + 40]!r}")
        self.i = m.end()
        tok = m.group(0)
        if tok in ("TRUE", "FALSE"):
            return tok == "TRUE"
        return int(tok) if tok.lstrip("-").isdigit() else tok

    def seq(self, close):
        out = []
        self.ws()
        while not self.t.startswith(close, self.i):
            out.append(self.value())
            self.ws()
            if self.t.startswith(",", self.i):
                self.i += 1
            self.ws()
        self.i += len(close)
        return out


def parse_value(text):
    p = _P(text)
    v = p.value()
    p.ws()
    if p.i != len(p.t):
        raise ValueError(f"trailing text after value: {p.t[p.i:p.i + 40]!r}")
    return v


_REC_START = r'^<<\s*"%s"'


def printed_records(res, tag):
    """every value printed as PrintT(<<tag, a, b, ...>>) -> [a, b, ...] (nested tuples become lists,
    records dicts, JSON-looking strings are decoded).  TLC wraps long values over several lines
    (`<< "TAG",` ...): records are found by their start and parsed to the balancing `>>`.
    Raises MachineryError if a record start is found that cannot be parsed - a dropped record
    could be a dropped violation."""
    out = []
    text = res.out
    for m in re.finditer(_REC_START % re.escape(tag), text, re.M):
        p = _P(text)
        p.i = m.start()
        try:
            v = p.value()
        except (ValueError, IndexError) as e:
            raise MachineryError(f"cannot parse {tag} record printed by TLC at offset {m.start()}: {e}\n"
                                 + text[m.start():m.start() + 400])
        out.append(v[1:])
    return out


def write_cfg(wd, name, text):
    with open(os.path.join(wd, name), "w") as f:
        f.write(text)
    return name


def validate_traces(ctx, wd, module, cfg, traces, chunk=2000, timeout=900, tag="RESULT"):
    """batched trace validation: returns list of (matched, length) per trace, in order.
    The trace spec must follow the tid/l/TLCSet idiom and print <<"RESULT", i, matched, len>>."""
    results = []
    for start in range(0, len(traces), chunk):
        part = traces[start:start + chunk]
        path = os.path.join(wd, f"traces_{start}.json")
        with open(path, "w") as f:
            json.dump(part, f)
        res = run(wd, module, cfg, workers=1, timeout=timeout, deadlock=False,
                  env={"TRACE_FILE": path})
        if res.error:
            raise MachineryError(f"trace validation {module} failed:\n{res.error}\n{res.out[-2000:]}")
        ctx.tlc_stats(res)
        recs = {r[0]: (r[1], r[2]) for r in printed_records(res, tag)}
        if len(recs) != len(part):
            raise MachineryError(f"trace validation {module}: {len(recs)} results for {len(part)} traces\n"
                                 + res.out[-3000:])
        bad_inv = res.invariant_violated or res.action_violated
        for i in range(1, len(part) + 1):
            results.append(recs[i] + (bad_inv,))
        os.remove(path)
        if bad_inv:
            # an invariant of the base spec failed on a state reached by some trace: TLC stops
            # at the first one, so report it for the whole chunk via the counterexample text
            results[-1] = results[-1][:2] + (res.counterexample(),)
    return results
