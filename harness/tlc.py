"""Run TLC / SANY under a timeout and parse what it printed.

Every invocation gets a private work directory under /verif/work (never /tmp),
into which the spec modules and any generated constant modules / data files are
copied; it is removed afterwards unless keep=True.
"""
import json
import os
import re
import shutil
import subprocess
import time

VERIF = os.path.dirname(os.path.dirname(os.path.abspath(__file__)))
SPEC = os.path.join(VERIF, "spec")
WORK = os.path.join(VERIF, "work")
JARS = "/opt/veriftools/tla/tla2tools.jar:/opt/veriftools/tla/CommunityModules-deps.jar"


class MachineryError(Exception):
    """TLC/SANY/harness failure: never a verdict about the code (exit 2)."""


class TLCResult:
    def __init__(self, out, rc, wall):
        self.out = out
        self.rc = rc
        self.wall = wall
        m = re.findall(r"(\d+) states generated, (\d+) distinct states found", out)
        self.generated = int(m[-1][0]) if m else 0
        self.distinct = int(m[-1][1]) if m else 0
        self.invariant_violated = re.findall(r"Invariant (\S+) is violated", out)
        self.action_violated = re.findall(r"Action property (\S+) is violated", out)
        self.temporal_violated = "Temporal properties were violated" in out
        self.deadlock = "Deadlock reached" in out
        self.finished = "Model checking completed" in out or \
            "Finished computing initial states" in out and "Finished in" in out
        self.error = None
        # TLC's own error lines start a line; "TypeError: ..." inside a printed value is data
        m = re.search(r"^Error: (.*)", out, re.M)
        if m and not (self.invariant_violated or self.action_violated
                      or self.temporal_violated or self.deadlock):
            self.error = out[m.start():m.start() + 2000]
        self.coverage = {}
        for name, a, b in re.findall(r"<(\w+) line \d+, col \d+ to line \d+, col \d+ of module \w+>: (\d+):(\d+)", out):
            self.coverage[name] = self.coverage.get(name, 0) + int(b)

    @property
    def ok(self):
        return (self.rc == 0 and not self.invariant_violated and not self.action_violated
                and not self.temporal_violated and not self.deadlock and self.error is None)

    def printed(self):
        """values printed with PrintT, one per line, as raw text (possibly multi-line values
        are joined by bracket matching)"""
        vals = []
        buf = None
        depth = 0
        for line in self.out.splitlines():
            if buf is None:
                if line.startswith("<<") or line.startswith('"') or line.startswith("["):
                    buf = line
                    depth = _depth(line)
                    if depth <= 0:
                        vals.append(buf)
                        buf = None
            else:
                buf += " " + line.strip()
                depth += _depth(line)
                if depth <= 0:
                    vals.append(buf)
                    buf = None
        return vals

    def counterexample(self):
        m = re.search(r"(^Error: .*?)(?=\n\d+ states generated|\Z)", self.out, re.S | re.M)
        return m.group(1)[:20000] if m else ""


def _depth(s):
    d = 0
    instr = False
    i = 0
    while i < len(s):
        c = s[i]
        if instr:
            if c == "\\":
                i += 1
            elif c == '"':
                instr = False
        elif c == '"':
            instr = True
        elif c in "<[({":
            if c == "<" and s[i:i + 2] != "<<":
                i += 1
                continue
            d += 1
            if c == "<":
                i += 1
        elif c in ">])}":
            if c == ">" and s[i:i + 2] != ">>":
                i += 1
                continue
            d -= 1
            if c == ">":
                i += 1
        i += 1
    return d


def workdir(tag):
    d = os.path.join(WORK, f"{tag}-{os.getpid()}-{int(time.time() * 1000) % 100000000}")
    os.makedirs(d, exist_ok=True)
    return d


def stage(wd, modules=None):
    """copy all spec modules (cheap: a few hundred kB) into the work dir"""
    for f in os.listdir(SPEC):
        if f.endswith(".tla") or f.endswith(".cfg"):
            shutil.copy(os.path.join(SPEC, f), os.path.join(wd, f))


def run(wd, module, cfg=None, workers=None, timeout=600, simulate=None, depth=None,
        seed=None, coverage=False, deadlock=True, env=None, xss="64m", heap=None,
        extra=()):
    """run TLC on <wd>/<module>.tla with <cfg> (file name inside wd)."""
    if workers is None:
        workers = min(16, os.cpu_count() or 1)
    meta = os.path.join(wd, f"meta-{os.getpid()}-{time.time_ns() % 10**9}")
    cmd = ["timeout", "-k", "5", str(int(timeout)),
           "java", f"-Xss{xss}", "-XX:+UseParallelGC"]
    if heap:
        cmd.append(f"-Xmx{heap}")
    cmd += ["-cp", JARS, "tlc2.TLC", "-workers", str(workers), "-metadir", meta,
            "-noGenerateSpecTE"]
    if cfg:
        cmd += ["-config", cfg]
    if not deadlock:
        cmd += ["-deadlock"]
    if coverage:
        cmd += ["-coverage", "1"]
    if simulate:
        cmd += ["-simulate", simulate]
    if depth:
        cmd += ["-depth", str(depth)]
    if seed is not None:
        cmd += ["-seed", str(seed)]
    cmd += list(extra)
    cmd += [module]
    e = dict(os.environ)
    e.pop("JAVA_TOOL_OPTIONS", None)
    if env:
        e.update(env)
    t0 = time.time()
    p = subprocess.run(cmd, cwd=wd, env=e, stdout=subprocess.PIPE, stderr=subprocess.STDOUT,
                       text=True, errors="replace")
    wall = time.time() - t0
    shutil.rmtree(meta, ignore_errors=True)
    if p.returncode in (124, 137):
        raise MachineryError(f"TLC timed out after {timeout}s on {module}")
    res = TLCResult(p.stdout, p.returncode, wall)
    if res.error and ("Parsing or semantic analysis failed" in p.stdout
                      or "Fatal error" in p.stdout or "java.lang" in res.error
                      or "was not able to" in p.stdout):
        raise MachineryError(f"TLC failed on {module}:\n{p.stdout[-4000:]}")
    return res


def require_clean(res, what):
    """raise MachineryError if TLC reported an evaluation error (as opposed to a property verdict)"""
    if res.error:
        raise MachineryError(f"TLC error in {what}:\n{res.error}\n{res.out[-3000:]}")
    return res


def sany(wd, module):
    p = subprocess.run(["timeout", "120", "java", "-cp", JARS, "tla2sany.SANY", module + ".tla"],
                       cwd=wd, stdout=subprocess.PIPE, stderr=subprocess.STDOUT, text=True)
    ok = p.returncode == 0 and "Semantic errors" not in p.stdout and "Parse Error" not in p.stdout \
        and "Fatal" not in p.stdout and "Could not" not in p.stdout
    return ok, p.stdout


def cleanup(wd):
    shutil.rmtree(wd, ignore_errors=True)


# ---------- writing Python data as TLA+ -------------------------------------------------

def tla(v):
    """Python value -> TLA+ expression text (bytes -> <<..>> of 0..255; dict -> record or function)"""
    if isinstance(v, bool):
        return "TRUE" if v else "FALSE"
    if isinstance(v, int):
        if not -2 ** 31 < v < 2 ** 31:
            raise ValueError(f"integer {v} does not fit a TLC int: use limbs")
        return str(v)
    if isinstance(v, str):
        return json.dumps(v)
    if isinstance(v, (bytes, bytearray)):
        return "<<" + ",".join(str(b) for b in v) + ">>"
    if isinstance(v, (list, tuple)):
        return "<<" + ",".join(tla(x) for x in v) + ">>"
    if isinstance(v, (set, frozenset)):
        return "{" + ",".join(tla(x) for x in sorted(v, key=repr)) + "}"
    if isinstance(v, dict):
        if not v:
            return "<<>>"
        if all(isinstance(k, str) and re.fullmatch(r"[A-Za-z_][A-Za-z0-9_]*", k) for k in v):
            return "[" + ",".join(f"{k} |-> {tla(x)}" for k, x in v.items()) + "]"
        return "(" + " @@ ".join(f"({tla(k)} :> {tla(x)})" for k, x in v.items()) + ")"
    if v is None:
        return '"none"'
    raise TypeError(type(v))


def write_module(wd, name, defs, extends=("Integers", "Sequences", "TLC")):
    """write a constant module: defs is {name: python value or raw TLA text (str starting with '\\*raw ')}"""
    lines = [f"---- MODULE {name} ----", "EXTENDS " + ", ".join(extends)]
    for k, v in defs.items():
        if isinstance(v, Raw):
            lines.append(f"{k} == {v.text}")
        else:
            lines.append(f"{k} == {tla(v)}")
    lines.append("====")
    with open(os.path.join(wd, name + ".tla"), "w") as f:
        f.write("\n".join(lines) + "\n")


class Raw:
    def __init__(self, text):
        self.text = text


def printed_records(res, tag):
    """PrintT(<<tag, a, b, ...>>) lines -> list of lists of python values (strings are unescaped;
    strings that look like JSON are decoded)"""
    out = []
    for line in res.printed():
        if not line.startswith('<<"' + tag + '"'):
            continue
        body = line.strip()[2:-2]
        vals = []
        i = 0
        while i < len(body):
            c = body[i]
            if c == '"':
                j = i + 1
                while body[j] != '"':
                    j += 2 if body[j] == "\\" else 1
                s = json.loads(body[i:j + 1])
                if s[:1] in "[{" and s[-1:] in "]}":
                    try:
                        s = json.loads(s)
                    except ValueError:
                        pass
                vals.append(s)
                i = j + 1
            elif c in " ,":
                i += 1
            else:
                j = i
                while j < len(body) and body[j] not in ",":
                    j += 1
                tok = body[i:j].strip()
                if tok in ("TRUE", "FALSE"):
                    vals.append(tok == "TRUE")
                else:
                    try:
                        vals.append(int(tok))
                    except ValueError:
                        vals.append(tok)
                i = j
        out.append(vals[1:])
    return out


def write_cfg(wd, name, text):
    with open(os.path.join(wd, name), "w") as f:
        f.write(text)
    return name


def validate_traces(ctx, wd, module, cfg, traces, chunk=2000, timeout=900, tag="RESULT"):
    """batched trace validation: returns list of (matched, length) per trace, in order.
    The trace spec must follow the tid/l/TLCSet idiom and print <<"RESULT", i, matched, len>>."""
    results = []
    for start in range(0, len(traces), chunk):
        part = traces[start:start + chunk]
        path = os.path.join(wd, f"traces_{start}.json")
        with open(path, "w") as f:
            json.dump(part, f)
        res = run(wd, module, cfg, workers=1, timeout=timeout, deadlock=False,
                  env={"TRACE_FILE": path})
        if res.error:
            raise MachineryError(f"trace validation {module} failed:\n{res.error}\n{res.out[-2000:]}")
        ctx.tlc_stats(res)
        recs = {r[0]: (r[1], r[2]) for r in printed_records(res, tag)}
        if len(recs) != len(part):
            raise MachineryError(f"trace validation {module}: {len(recs)} results for {len(part)} traces\n"
                                 + res.out[-3000:])
        bad_inv = res.invariant_violated or res.action_violated
        for i in range(1, len(part) + 1):
            results.append(recs[i] + (bad_inv,))
        os.remove(path)
        if bad_inv:
            # an invariant of the base spec failed on a state reached by some trace: TLC stops
            # at the first one, so report it for the whole chunk via the counterexample text
            results[-1] = results[-1][:2] + (res.counterexample(),)
    return results
