"""Build DSL statements with the REAL ebpfcat classes and describe them for spec/Dsl.tla.

A tree is a nested tuple:
    ("var", fmt) | ("local", fmt) | ("reg", kind) | ("const", int)
    ("bin", op, left, right) | ("neg", a) | ("abs", a)
`statement(tree, dst)` builds a minimal XDP program

    prologue   locals and registers that are operands are loaded from map variables
    statement  dst = <expression>          (built by applying Python operators to the real objects)
    epilogue   a local / register destination is copied to a map variable
    exit PASS

and returns the bytecode (harness.progs.Built) together with the tree in the record form of
Dsl.tla, the locations of the operands' initial bytes and of the destination's final bytes.
Nothing about the meaning of the expression is computed here."""
import operator

from . import progs

FMT_SIZE = dict(b=1, B=1, h=2, H=2, i=4, I=4, q=8, Q=8)
REG_SRC_FMT = dict(r="Q", sr="q", w="I", sw="i")
OPS = dict(add=operator.add, sub=operator.sub, mul=operator.mul, floordiv=operator.floordiv,
           mod=operator.mod, lsh=operator.lshift, rsh=operator.rshift, xor=operator.xor)
OPS["and"] = operator.and_
OPS["or"] = operator.or_
OPERAND_REGS = [2, 3, 4, 5]
DST_REG = 6


class NotGenerated(Exception):
    """the generator refused the statement (AssembleError etc.): no program, nothing to check"""


def leaves_of(tree, out=None):
    out = [] if out is None else out
    if tree[0] in ("var", "local", "reg", "hash"):
        out.append(tree)
    elif tree[0] == "bin":
        leaves_of(tree[2], out)
        leaves_of(tree[3], out)
    elif tree[0] in ("neg", "abs"):
        leaves_of(tree[1], out)
    return out


def depth_of(tree):
    if tree[0] == "bin":
        return 1 + max(depth_of(tree[2]), depth_of(tree[3]))
    if tree[0] in ("neg", "abs"):
        return 1 + depth_of(tree[1])
    return 0


def word(v, n):
    return list((v % (1 << (8 * n))).to_bytes(n, "little"))


def fsize(fmt):
    """size of a variable format; a byte-order prefix ("<", ">", "!") does not count"""
    return FMT_SIZE[fmt[-1]]


def big(fmt):
    return fmt[0] in ">!"


def statement(tree, dst, use_kernel=False, scope=None, alias_dst=False):
    """dst: ("var", fmt) | ("local", fmt) | ("reg", kind) | ("hash", fmt).  Leaves may also be ("hash", fmt): a
    hash-map variable (its value is looked up with a helper call).  scope: None, or the name of a temporary
    ("tmp", "stmp", "wtmp") inside whose `with` block the statement is placed (the temporary then occupies a
    register, usually r0).  alias_dst: a register destination is the register of the LAST register operand of the
    tree (`r3 = 10 - r3`) instead of a register of its own.  Returns dict(built, ast, leaves, dst, n, inputs=[(offset, size, signed)] in leaf order)
    or raises NotGenerated."""
    from ebpfcat.xdp import XDP, XDPExitCode
    from ebpfcat.arraymap import ArrayMap
    from ebpfcat.hashmap import HashMap
    from ebpfcat.ebpf import LocalVar

    leaves = leaves_of(tree)
    if len([x for x in leaves if x[0] == "reg"]) > len(OPERAND_REGS):
        raise NotGenerated("too many register operands")
    m = ArrayMap()
    ns = dict(license="GPL", m=m)
    slot = {}
    regno = {}
    hm = HashMap() if dst[0] == "hash" or any(lf[0] == "hash" for lf in leaves) else None
    if hm is not None:
        ns["hm"] = hm
    for i, lf in enumerate(leaves):
        slot[id(lf)] = i
        if lf[0] == "hash":
            ns[f"in{i}"] = hm.globalVar(lf[1])
        elif lf[0] == "reg":
            ns[f"in{i}"] = m.globalVar(REG_SRC_FMT[lf[1]])
            regno[i] = OPERAND_REGS[len(regno)]
        else:
            ns[f"in{i}"] = m.globalVar(lf[1])
            if lf[0] == "local":
                ns[f"loc{i}"] = LocalVar(lf[1])
    if dst[0] == "reg":
        ns["out"] = m.globalVar("Q")
    elif dst[0] == "hash":
        ns["out"] = hm.globalVar(dst[1])
        ns["pad"] = m.globalVar("Q")            # the array map must not be empty
    else:
        ns["out"] = m.globalVar(dst[1])
        if dst[0] == "local":
            ns["lout"] = LocalVar(dst[1])
    n = 8 * 2 ** depth_of(tree) + 1

    def expr(self, t):
        if t[0] in ("var", "hash"):
            return getattr(self, f"in{slot[id(t)]}")
        if t[0] == "local":
            return getattr(self, f"loc{slot[id(t)]}")
        if t[0] == "reg":
            return getattr(self, t[1])[regno[slot[id(t)]]]
        if t[0] == "const":
            return t[1]
        if t[0] == "neg":
            return -expr(self, t[1])
        if t[0] == "abs":
            return abs(expr(self, t[1]))
        return OPS[t[1]](expr(self, t[2]), expr(self, t[3]))

    def program(self):
        for i, lf in enumerate(leaves):
            if lf[0] == "local":
                setattr(self, f"loc{i}", getattr(self, f"in{i}"))
            elif lf[0] == "reg":
                getattr(self, lf[1])[regno[i]] = getattr(self, f"in{i}")
        if scope is None:
            body(self)
        else:
            with getattr(self, scope):
                setattr(self, scope, 1)
                body(self)
        self.exit(XDPExitCode.PASS)

    def body(self):
        e = expr(self, tree)
        if e is None or isinstance(e, int):
            raise NotGenerated(f"expression evaluated to {e!r} while building")
        if dst[0] in ("var", "hash"):
            self.out = e
        elif dst[0] == "local":
            self.lout = e
            self.out = self.lout
        else:
            dreg = DST_REG
            if alias_dst and regno:
                dreg = regno[max(regno)]
            getattr(self, dst[1])[dreg] = e
            self.out = self.r[dreg]
    ns["program"] = program
    cls = type("Stmt", (XDP,), ns)
    try:
        b = progs.build(cls, use_kernel=use_kernel)
    except NotGenerated:
        raise
    except Exception as ex:            # AssembleError, TypeError from the DSL, ...
        raise NotGenerated(f"{type(ex).__name__}: {ex}")
    inst = b.inst

    arrfd = next(j + 1 for j, mm in enumerate(b.maps) if mm["type"] == "array")
    hfd = next((j + 1 for j, mm in enumerate(b.maps) if mm["type"] == "hash"), 0)
    keyof = lambda name: type(inst).__dict__[name].count

    def ast(t):
        if t[0] == "hash":
            return dict(k="var", fmt=t[1], fd=hfd, off=keyof(f"in{slot[id(t)]}"))
        if t[0] in ("var", "local"):
            return dict(k="var", fmt=t[1][-1], fd=1, off=inst.__dict__[f"in{slot[id(t)]}"])
        if t[0] == "reg":
            return dict(k="reg", kind=t[1], fd=1, off=inst.__dict__[f"in{slot[id(t)]}"])
        if t[0] == "const":
            return dict(k="const", v=word(t[1], n))
        if t[0] in ("neg", "abs"):
            return dict(k=t[0], a=ast(t[1]))
        return dict(k="bin", op=t[1], l=ast(t[2]), r=ast(t[3]))

    leafrecs, inputs = [], []
    if arrfd != 1:
        raise NotGenerated("the array map is expected to be map 1")
    for i, lf in enumerate(leaves):
        fmt = REG_SRC_FMT[lf[1]] if lf[0] == "reg" else lf[1]
        if lf[0] == "hash":
            key = keyof(f"in{i}")
            leafrecs.append(dict(fd=hfd, off=key, len=FMT_SIZE[fmt], key=[key]))
            inputs.append((("hash", key), FMT_SIZE[fmt], fmt.islower()))
            continue
        off = inst.__dict__[f"in{i}"]
        leafrecs.append(dict(fd=1, off=off, len=fsize(fmt), be=big(fmt)))
        inputs.append((off, fsize(fmt), fmt[-1].islower(), big(fmt)))
    dsize = (4 if dst[1] in ("w", "sw") else 8) if dst[0] == "reg" else fsize(dst[1])
    if dst[0] == "hash":
        drec = dict(fd=hfd, off=0, size=dsize, key=[keyof("out")])
    else:
        drec = dict(fd=1, off=inst.__dict__["out"], size=dsize, be=dst[0] != "reg" and big(dst[1]))
    from ebpfcat.hashmap import HashGlobalVarDesc
    hashkeys = [v.count for v in ns.values() if isinstance(v, HashGlobalVarDesc)]
    return dict(built=b, ast=ast(tree), leaves=leafrecs, n=n, inputs=inputs, dst=drec,
                mapsize=b.maps[0]["vs"], hfd=hfd, hashkeys=sorted(set(hashkeys)))


def case(st, values):
    """a Codegen.tla case: `values` = one integer per leaf (taken modulo the leaf's size)"""
    buf = bytearray(st["mapsize"])
    hv = {k: bytes(8) for k in st.get("hashkeys", ())}       # every hash variable exists (as after load())
    for (off, size, *rest), v in zip(st["inputs"], values):
        if isinstance(off, tuple):
            # the 8-byte entry of a hash variable: its value in the low bytes, the rest is not the variable's
            hv[off[1]] = bytes(word(v, size)) + bytes([0xA5] * (8 - size))
        else:
            be = len(rest) > 1 and rest[1]
            buf[off:off + size] = bytes(word(v, size)[::-1] if be else word(v, size))
    c = progs.case(st["built"], arr={1: bytes(buf)},
                   hashes=[(st["hfd"], bytes([k]), v) for k, v in sorted(hv.items())])
    c.update(ast=st["ast"], leaves=st["leaves"], n=st["n"], dst=st["dst"])
    return c


def boundary(size, signed):
    M = 1 << (8 * size)
    vals = [0, 1, 2, 3, 7, M - 1, M - 2, M >> 1, (M >> 1) - 1, (M >> 1) + 1, 31, 32, 33, 63, 64, 100000 % M]
    out = []
    for v in vals:
        if v not in out:
            out.append(v)
    return out
