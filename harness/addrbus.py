"""SimBus that records what C25 is about: every probe of a station address (FPRD of register
0x10, with the working counter that came back) and every write of register 0x10 into a terminal,
in the order in which the datagrams passed the terminals.  Uses simbus unchanged."""
import struct

from . import simbus


class _Terms(list):
    """SimBus.process iterates over the terminals once per datagram: count the datagrams"""
    owner = None

    def __iter__(self):
        if self.owner is not None:
            self.owner._dg += 1
        return super().__iter__()


class AddrBus(simbus.SimBus):
    def __init__(self, terminals):
        super().__init__(terminals)
        self.terminals = _Terms(self.terminals)
        self.terminals.owner = self
        self.events = []        # dict(op="probe", a, wkc) | dict(op="write", t (1-based), a, cmd)
        self._dg = -1
        self._cur = []
        self._cmds = []
        for k, t in enumerate(self.terminals):
            t.add_handler(0x10, 0x12, None, self._writer(k, t))

    def _writer(self, k, term):
        def writer(off, data):
            cur = bytearray(term.mem[0x10:0x12])
            for i, b in enumerate(data):
                if 0x10 <= off + i < 0x12:
                    cur[off + i - 0x10] = b
            cmd = self._cmds[self._dg] if 0 <= self._dg < len(self._cmds) else -1
            self._cur.append((self._dg, 1, dict(op="write", t=k + 1, cmd=cmd,
                                                 a=struct.unpack("<H", cur)[0])))
            return False            # let the register file store it
        return writer

    def process(self, frame):
        pf = simbus.parse_frame(frame)
        self._cmds = [d["cmd"] for d in pf["dgrams"]]
        self._dg = -1
        self._cur = []
        out = super().process(frame)
        po = simbus.parse_frame(out)
        for j, (d, o) in enumerate(zip(pf["dgrams"], po["dgrams"])):
            if d["cmd"] == simbus.FPRD and d["ado"] <= 0x10 and d["ado"] + d["len"] >= 0x12:
                self._cur.append((j, 0, dict(op="probe", a=d["adp"], wkc=o["wkc"])))
        self._cur.sort(key=lambda x: (x[0], x[1]))
        self.events.extend(e for _, _, e in self._cur)
        self._dg = -1
        return out


def eeprom_image(serial, vendor=2, product=0x1234, revision=1):
    """minimal SII image: identity words 8..15, no categories (end marker at word 0x40)"""
    img = bytearray(0x80)
    struct.pack_into("<IIII", img, 16, vendor, product, revision, serial)
    return bytes(img) + b"\xff\xff\xff\xff" * 4
