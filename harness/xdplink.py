"""Drivers for X04: the REAL ebpfcat.xdp.XDP object (real XDRFD protocol, real _netlink / attach /
detach / run, real EBPF.load / close / assemble, real bpf.prog_load when the kernel is usable) against
a FAKE rtnetlink endpoint, in harness/simloop's virtual time.

Nothing here decides anything.  A session records, in one ordered event list (see
spec/XdpLinkTrace.tla),

    call op ifx flags how     the harness calls load() / attach() / detach() / run().__aenter__ /
                              run().__aexit__ (how = normal | raise | cancelled) / close()
    load fd img n             ebpfcat.bpf.prog_load returned descriptor fd (img = CRC of the n
                              instructions it was given)
    loadfail errno img n scripted   ... raised OSError(errno): scripted, or the real kernel refused
    mapload m                 the load() of the m-th map of the program was called
    open s fam proto          create_datagram_endpoint was called: socket number s
    openfail errno            ... raised OSError(errno)               (scripted)
    send s b forced kres kskb kdrv   the protocol sent datagram b; the fake kernel acted on it
                              (forced = errno the script makes it fail with, 0 = none;
                              kres = its verdict, kskb / kdrv = the interface afterwards)
    sendfail s b errno        sendto failed: protocol.error_received(OSError(errno))  (scripted)
    recv s b                  datagram b was delivered to protocol.datagram_received
    cberr s exctype           ... which raised (the real transport lets that reach the loop's
                              exception handler)
    sclose s                  transport.close()
    close fd / closenone      ebpfcat.ebpf called os.close(fd) / os.close(<not an int>)
    cancel                    the harness called task.cancel()
    ret out                   the call ended: res, errno, exctype, loaded, handle

What is interposed (inside a session only, restored afterwards; /repo is not touched):
  * loop.create_datagram_endpoint (instance attribute of the session's loop) -> FakeTransport, which
    schedules connection_made / the waiter / deliveries exactly as asyncio's
    _SelectorDatagramTransport does (call_soon(connection_made), call_soon(waiter), one datagram
    per callback, nothing delivered after close(), OSError of sendto -> error_received);
  * ebpfcat.xdp.if_nametoindex -> the session's interface table;
  * ebpfcat.bpf.prog_load -> the real one (or a descriptor of /dev/null without a kernel),
    observed, optionally moved to a chosen descriptor number (fdbase) so that the fd field of the
    message is exercised beyond one byte;
  * ebpfcat.ebpf.os -> a proxy whose close() is observed and refuses to close anything that is not
    an open program descriptor of the session (a stray close must not hit the harness).

The fake kernel (FakeRtnl) parses every request with its own parser, keeps the attached program
per interface and mode, and answers as the call's reply kind says:
    ack | slow | err16 | err1 | stale_ok | stale_err | newlink | noop | multi | noise_err
    | openfail | sendfail | loadfail
Replies are shaped like the real kernel's (captured on `lo`): success = 36 bytes, NLM_F_CAPPED;
error = the whole request echoed, optionally followed by an extended-ack TLV."""
import asyncio
import collections
import fcntl
import logging
import os
import struct
import zlib
from asyncio import futures

from . import simloop

AF_NETLINK, NETLINK_ROUTE = 16, 0
REPLIES = ("ack", "slow", "err16", "err1", "stale_ok", "stale_err", "newlink", "noop", "multi",
           "noise_err", "openfail", "sendfail", "loadfail")
NOISE_FIRST = {"stale_ok": "stale_ok", "stale_err": "stale_err", "newlink": "newlink", "noop": "noop",
               "noise_err": "newlink"}
FORCED = {"err16": 16, "err1": 1, "noise_err": 16}
SLOW = 0.5


class Boom(Exception):
    pass


class HookLoop(simloop.SimLoop):
    after = None

    def _run_once(self):
        super()._run_once()
        if self.after is not None:
            self.after(self)


# ---------------------------------------------------------------------------------------------
# the fake kernel

def parse_setlink(data):
    """own parser of an RTM_SETLINK request -> dict(seq, index, fd, flags) or None.
    fd is None when no IFLA_XDP_FD attribute is present."""
    if len(data) < 32:
        return None
    ln, ty, fl, seq, pid = struct.unpack_from("<IHHII", data, 0)
    fam, _pad, ifty, index, ifl, chg = struct.unpack_from("<BBHiII", data, 16)
    if ln != len(data) or ty != 19 or not fl & 1:
        return None

    def walk(lo, hi):
        out, p = [], lo
        while p + 4 <= hi:
            alen, aty = struct.unpack_from("<HH", data, p)
            if alen < 4 or p + alen > hi:
                raise ValueError("attribute overruns")
            out.append((aty & 0x3fff, p + 4, p + alen))
            p += (alen + 3) & ~3
        return out

    fd, flags = None, 0
    try:
        for aty, lo, hi in walk(32, ln):
            if aty == 43:
                for nty, nlo, nhi in walk(lo, hi):
                    if nty == 1 and nhi - nlo == 4:
                        fd, = struct.unpack_from("<i", data, nlo)
                    elif nty == 3 and nhi - nlo == 4:
                        flags, = struct.unpack_from("<I", data, nlo)
    except ValueError:
        return None
    return dict(seq=seq, index=index, fd=fd, flags=flags, ifl=ifl, chg=chg)


class FakeRtnl:
    def __init__(self, cfg, fdprog):
        self.ifs = {c["ifx"]: dict(skb=0, drv=0, native=bool(c["native"])) for c in cfg}
        self.fdprog = fdprog          # fd -> program number, kept by the load / close observers
        self.pid = 0x4d08

    def _prog_of(self, fd):
        try:
            os.fstat(fd)
        except OSError:
            return None
        return self.fdprog.get(fd)

    def apply(self, data, forced):
        """-> (errno-style result <= 0, (skb, drv) of the interface addressed afterwards)"""
        r = parse_setlink(data)
        if forced:
            st = self.ifs.get(r["index"]) if r else None
            return -forced, ((st["skb"], st["drv"]) if st else (0, 0))
        if r is None:
            return -22, (0, 0)
        dev = self.ifs.get(r["index"])
        if dev is None:
            return -19, (0, 0)
        res = self._xdp(dev, r)
        return res, (dev["skb"], dev["drv"])

    def _xdp(self, dev, r):
        if r["fd"] is None:
            return 0
        flags = r["flags"]
        if flags & ~0x1f or bin(flags & 0xe).count("1") > 1:
            return -22
        if flags not in (2, 4):
            return -22                    # outside what the library can ask for
        new = 0
        if r["fd"] >= 0:
            new = self._prog_of(r["fd"])
            if new is None:
                return -9
        mode, other = ("skb", "drv") if flags == 2 else ("drv", "skb")
        if new and dev[other]:
            return -17
        if new == dev[mode]:
            return 0
        if mode == "drv" and not dev["native"]:
            return -95
        dev[mode] = new
        return 0

    def ack(self, data, res, tlv):
        seq, = struct.unpack_from("<I", data, 8)
        if res == 0:
            return struct.pack("<IHHIIi", 36, 2, 0x100, seq, self.pid, 0) + data[:16]
        extra = b""
        if tlv:
            msg = b"Native and generic XDP can't be active at the same time\0"
            extra = struct.pack("<HH", 4 + len(msg), 1) + msg
            extra += b"\0" * (-len(extra) % 4)
        return struct.pack("<IHHIIi", 20 + len(data) + len(extra), 2, 0x200 if tlv else 0, seq,
                           self.pid, res) + data + extra

    def noise(self, kind, data):
        seq, = struct.unpack_from("<I", data, 8)
        other = (seq + 1) & 0x7fffffff
        if kind == "newlink":
            return struct.pack("<IHHIIBxHiII", 32, 16, 0, 0, 0, 0, 772, 1, 0x10049, 0)
        if kind == "noop":
            return struct.pack("<IHHII", 16, 1, 0, 0, 0)
        err = 0 if kind == "stale_ok" else -16
        return struct.pack("<IHHIIi", 36, 2, 0x100, other, 0, err) + \
            struct.pack("<IHHII", 52, 19, 5, other, 0)


# ---------------------------------------------------------------------------------------------
# the fake datagram endpoint

class FakeSocket:
    def __init__(self):
        self.opts = []

    def setsockopt(self, *a):
        self.opts.append(a)

    def fileno(self):
        return -1


class FakeTransport(asyncio.DatagramTransport):
    def __init__(self, hub, loop, protocol, waiter, sid, plan):
        super().__init__()
        self.hub, self.loop, self.protocol, self.sid, self.plan = hub, loop, protocol, sid, plan
        self.sock = FakeSocket()
        self.closing = False
        self.queue = collections.deque()
        loop.call_soon(self.protocol.connection_made, self)
        loop.call_soon(futures._set_result_unless_cancelled, waiter, None)

    def get_extra_info(self, name, default=None):
        return self.sock if name == "socket" else default

    def is_closing(self):
        return self.closing

    def close(self):
        if self.closing:
            return
        self.closing = True
        self.hub.rec(e="sclose", s=self.sid)
        self.loop.call_soon(self._lost)

    def _lost(self):
        try:
            self.protocol.connection_lost(None)
        except Exception:
            pass

    def abort(self):
        self.close()

    # -- towards the kernel
    def sendto(self, data, addr=None):
        data = bytes(data)
        hub, plan = self.hub, self.plan
        kind = plan["reply"]
        if kind == "sendfail":
            hub.rec(e="sendfail", s=self.sid, b=list(data), errno=105)
            self.protocol.error_received(OSError(105, "No buffer space available"))
            return
        forced = FORCED.get(kind, 0)
        res, (skb, drv) = hub.kernel.apply(data, forced)
        hub.rec(e="send", s=self.sid, b=list(data), forced=forced, kres=res, kskb=skb, kdrv=drv)
        hub.requests += 1
        if len(data) < 16:
            return
        genuine = hub.kernel.ack(data, res, tlv=res in (-17, -16))
        if kind in NOISE_FIRST:
            grams = [hub.kernel.noise(NOISE_FIRST[kind], data), genuine]
        elif kind == "multi":
            grams = [hub.kernel.noise("newlink", data) + genuine]
        else:
            grams = [genuine]
        if kind == "slow":
            when = self.loop.time() + SLOW
            race = plan.get("cancel")
            if race == "rb":
                self.loop.call_at(when, hub.cancel_now)
                self.loop.call_at(when + 4e-10, self._arrive, grams)
            elif race == "ra":
                self.loop.call_at(when, self._arrive, grams)
                self.loop.call_at(when + 4e-10, hub.cancel_now)
            else:
                self.loop.call_at(when, self._arrive, grams)
        else:
            self.queue.extend(grams)
            self.loop.call_soon(self._read_ready)

    def _arrive(self, grams):
        self.queue.extend(grams)
        self._read_ready()

    # -- towards the protocol: one datagram per callback, none after close()
    def _read_ready(self):
        if self.closing:
            self.queue.clear()
            return
        if not self.queue:
            return
        data = self.queue.popleft()
        self.hub.rec(e="recv", s=self.sid, b=list(data))
        try:
            self.protocol.datagram_received(data, (0, 0))
        except (SystemExit, KeyboardInterrupt):
            raise
        except BaseException as exc:
            self.hub.rec(e="cberr", s=self.sid, exctype=type(exc).__name__)
        if self.queue:
            self.loop.call_soon(self._read_ready)


class Hub:
    """what one session shares: the recorder, the fake kernel, the plan of the current call"""
    def __init__(self, cfg):
        self.ev = []
        self.frozen = False           # set when the script is through: what the loop's shutdown does
        self.fdprog = {}              # to a context that was never left is not part of the session
        self.kernel = FakeRtnl(cfg, self.fdprog)
        self.nsock = 0
        self.nprog = 0
        self.requests = 0
        self.plan = dict(reply="ack", cancel="0")
        self.used = False          # the plan's reply kind applies to the first socket of the call
        self.task = None
        self.cancelled = False
        self.fdbase = 0
        self.use_kernel = False

    def rec(self, **e):
        if not self.frozen:
            self.ev.append(e)

    def cancel_now(self):
        if self.task is not None and not self.task.done() and not self.cancelled:
            self.cancelled = True
            self.rec(e="cancel")
            self.task.cancel()

    def take_plan(self):
        if self.used:
            return dict(reply="ack", cancel="0")
        self.used = True
        return self.plan


def make_endpoint(hub, loop):
    async def create_datagram_endpoint(protocol_factory, local_addr=None, remote_addr=None, *,
                                       family=0, proto=0, **kw):
        plan = hub.take_plan()
        if plan["reply"] == "openfail":
            hub.rec(e="openfail", errno=24)
            raise OSError(24, "Too many open files")
        hub.nsock += 1
        sid = hub.nsock
        hub.rec(e="open", s=sid, fam=int(family), proto=int(proto))
        protocol = protocol_factory()
        waiter = loop.create_future()
        transport = FakeTransport(hub, loop, protocol, waiter, sid, plan)
        try:
            await waiter
        except BaseException:
            transport.close()
            raise
        return transport, protocol
    return create_datagram_endpoint


class OsProxy:
    def __init__(self, real, hub):
        self._real, self._hub = real, hub

    def __getattr__(self, name):
        return getattr(self._real, name)

    def close(self, fd):
        if isinstance(fd, bool) or not isinstance(fd, int):
            self._hub.rec(e="closenone")
            return self._real.close(fd)
        self._hub.rec(e="close", fd=fd)
        if fd not in self._hub.fdprog:
            raise OSError(9, "Bad file descriptor")       # never let a stray close hit the harness
        del self._hub.fdprog[fd]
        return self._real.close(fd)


def make_prog_load(hub, real):
    def prog_load(prog_type, insns, *a, **kw):
        img = dict(img=zlib.crc32(bytes(insns)) & 0x7fffffff, n=len(insns) // 8)
        if hub.plan["reply"] == "loadfail" and not hub.used:
            hub.used = True
            hub.rec(e="loadfail", errno=1, scripted=True, **img)
            raise OSError(1, "Operation not permitted")
        if hub.use_kernel:
            try:
                fd, log = real(prog_type, insns, *a, **kw)
            except OSError as e:          # the real kernel refuses the program
                hub.rec(e="loadfail", errno=e.errno if isinstance(e.errno, int) and e.errno > 0 else 0,
                        scripted=False, **img)
                raise
        else:
            fd, log = os.open("/dev/null", os.O_RDONLY), None
        if hub.fdbase:
            nfd = fcntl.fcntl(fd, fcntl.F_DUPFD_CLOEXEC, hub.fdbase)
            os.close(fd)
            fd = nfd
        hub.nprog += 1
        hub.fdprog[fd] = hub.nprog
        hub.rec(e="load", fd=fd, **img)
        return fd, log
    return prog_load


NMAPS = 2


def make_program(hub):
    from ebpfcat.ebpf import Map
    from ebpfcat.xdp import XDP, XDPExitCode

    class RecMap(Map):
        def __init__(self, no):
            self.no = no

        def init(self, ebpf, fd):
            pass

        def load(self, ebpf):
            hub.rec(e="mapload", m=self.no)

    class Prog(XDP):
        license = "GPL"
        first = RecMap(1)
        second = RecMap(2)

        def program(self):
            self.exit(XDPExitCode.PASS)

    return Prog()


def handle_of(x):
    fd = getattr(x, "file_descriptor", "unset")
    if fd == "unset":
        return -2
    if fd is None:
        return -1
    if isinstance(fd, int) and not isinstance(fd, bool):
        return fd
    return -3


def run_session(sess, use_kernel=None, budget=20000):
    """sess: dict(cfg=[{net, ifx, native}], calls=[{op, net, flags, how, reply, cancel}], fdbase=int)
    -> dict(cfg, nmaps, ev, requests, skipped)"""
    from . import kernel as K
    import ebpfcat.bpf as B
    import ebpfcat.ebpf as EB
    import ebpfcat.xdp as X
    hub = Hub(sess["cfg"])
    hub.use_kernel = K.available() if use_kernel is None else use_kernel
    hub.fdbase = sess.get("fdbase", 0)
    names = {c["net"]: c["ifx"] for c in sess["cfg"]}
    saved = (X.if_nametoindex, B.prog_load, EB.os)
    info = dict(skipped=0)

    def if_nametoindex(name):
        if name not in names:
            raise OSError(19, "No such device")
        return names[name]

    async def main(loop):
        loop.create_datagram_endpoint = make_endpoint(hub, loop)
        x = make_program(hub)
        state = dict(cm=None)

        async def do(c):
            op, how = c["op"], c.get("how", "none")
            if op == "load":
                x.load()
            elif op == "close":
                x.close()
            elif op == "attach":
                await x.attach(c["net"], X.XDPFlags(c["flags"]))
            elif op == "detach":
                await x.detach(c["net"], X.XDPFlags(c["flags"]))
            elif op == "enter":
                state["cm"] = cm = x.run(c["net"], X.XDPFlags(c["flags"]))
                await cm.__aenter__()
            elif op == "exit":
                cm = state["cm"]
                try:
                    if how == "normal":
                        r = await cm.__aexit__(None, None, None)
                    elif how == "raise":
                        r = await cm.__aexit__(Boom, Boom("body"), None)
                    else:
                        r = await cm.__aexit__(asyncio.CancelledError, asyncio.CancelledError(), None)
                except Boom:
                    return "propagate"
                except asyncio.CancelledError:
                    if hub.cancelled:
                        raise
                    return "propagate"
                if r:
                    return "swallowed"
                return "ok" if how == "normal" else "propagate"
            return "ok"

        ctx_on = False
        for c in sess["calls"]:
            op = c["op"]
            if (op == "exit" and not ctx_on) or (op == "enter" and ctx_on):
                info["skipped"] += 1
                continue
            if op == "exit":                    # the context remembers where it was entered
                c = dict(c, net=state["net"], flags=state["flags"])
            elif op == "enter":
                state.update(net=c["net"], flags=c["flags"])
            ifx = names.get(c.get("net"), 0) if op in ("attach", "detach", "enter", "exit") else 0
            hub.rec(e="call", op=op, ifx=ifx, flags=c.get("flags", 0) if ifx else 0,
                    how=c.get("how", "none"))
            hub.plan = dict(reply=c.get("reply", "ack"), cancel=c.get("cancel", "0"))
            hub.used = False
            hub.cancelled = False
            hub.nsock = 0                      # sockets are numbered per call
            task = hub.task = loop.create_task(do(c))
            base = loop.steps
            at = int(hub.plan["cancel"]) if hub.plan["cancel"].isdigit() else 0

            def after(lp, task=task, base=base, at=at):
                if at and lp.steps - base == at and not task.done():
                    hub.cancel_now()
            loop.after = after
            try:
                await asyncio.wait([task], timeout=30.0)         # virtual seconds
            finally:
                loop.after = None
            out = dict(res="hang", errno=0, exctype="", loaded=bool(getattr(x, "loaded", False)),
                       handle=handle_of(x))
            if not task.done():
                hub.rec(e="ret", out=out)
                task.cancel()
                break
            if task.cancelled():
                out["res"] = "cancelled"
            else:
                exc = task.exception()
                if exc is None:
                    out["res"] = task.result()
                elif isinstance(exc, OSError):
                    out.update(res="oserror", errno=exc.errno if isinstance(exc.errno, int) else 0,
                               exctype=type(exc).__name__)
                else:
                    out.update(res="raise", exctype=type(exc).__name__)
            hub.rec(e="ret", out=out)
            if op == "enter":
                ctx_on = out["res"] == "ok"
            elif op == "exit":
                ctx_on = False
            await asyncio.sleep(2.0)                             # late deliveries find the socket closed
        hub.frozen = True

    logging.disable(logging.CRITICAL)
    loop = HookLoop(budget)
    loop.set_exception_handler(lambda lp, c: None)
    asyncio.set_event_loop(loop)
    try:
        X.if_nametoindex = if_nametoindex
        B.prog_load = make_prog_load(hub, saved[1])
        EB.os = OsProxy(os, hub)
        try:
            loop.run_until_complete(main(loop))
        except simloop.StallError as e:
            hub.rec(e="ret", out=dict(res="hang", errno=0, exctype=str(e)[:60], loaded=False, handle=-3))
    finally:
        X.if_nametoindex, B.prog_load, EB.os = saved
        loop.after = None
        try:
            simloop._cancel_all(loop)
        finally:
            asyncio.set_event_loop(None)
            loop.close()
        for fd in list(hub.fdprog):
            try:
                os.close(fd)
            except OSError:
                pass
        logging.disable(logging.NOTSET)
    return dict(cfg=[dict(ifx=c["ifx"], native=bool(c["native"])) for c in sess["cfg"]], nmaps=NMAPS,
                ev=hub.ev, requests=hub.requests, skipped=info["skipped"])
