"""A CoE SDO server for `simbus.SimTerminal`: exactly the server actions of spec/CoE.tla.

It is *not* trusted: every mailbox message it receives and sends is logged, and the log is
validated by TLC against Sdo || CoE, so a server that strays from the specification is rejected
together with the trace.

    srv = SdoServer(term, od, script)      # od: {(index, ca, sub): bytes}
    term.mbx_server = srv                  # also hooks the SM1 status poll for response delays

`script` is a list of slots, one per reply, each a dict with optional keys
    delay: number of mailbox-status polls before the reply becomes visible
    mail:  list of unrelated mails ("eoe" | "emcy") put into the mailbox before the reply
    short: use a smaller fragment than would fit (uploads)
    norm:  answer an upload of 1..4 bytes with a normal instead of an expedited response
    abort: abort instead of answering
Slots beyond the end of the script are plain.

`log` entries: dict(dir="c2s"|"s2c", m=message) with message fields as in CoE.tla
(mt, cnt, wlen, len, svc, cmd, body) plus decoded extras for readability (kind, toggle, ...).
"""
import struct

ABORT_TOGGLE = 0x05030000
ABORT_CMD = 0x05040001
ABORT_NOOBJ = 0x06020000
ABORT_LEN = 0x06070010
ABORT_GENERAL = 0x08000000


def parse_mail(raw):
    """raw: the bytes as written to / posted in the mailbox, starting with the 6-byte mailbox
    header.  Pure layout decoding; the meaning of the fields is judged by the TLA+ spec."""
    raw = bytes(raw)
    if len(raw) < 6:
        return dict(mt=-1, cnt=0, wlen=len(raw), len=0, svc=0, cmd=0, body=list(raw))
    ln, addr, chprio, tc = struct.unpack_from("<HHBB", raw, 0)
    payload = raw[6:6 + ln]
    m = dict(mt=tc & 0xf, cnt=(tc >> 4) & 7, wlen=len(raw), len=ln, svc=0, cmd=0,
             body=list(payload), addr=addr, chprio=chprio)
    if m["mt"] == 3 and len(payload) >= 3:
        coe, = struct.unpack_from("<H", payload, 0)
        m.update(svc=coe >> 12, number=coe & 0x1ff, cmd=payload[2], body=list(payload[3:]))
        c = payload[2]
        m["ccs"] = c >> 5
        m["toggle"] = (c >> 4) & 1
    return m


def frame(mt, cnt, payload):
    return struct.pack("<HHBB", len(payload), 0, 0, mt | cnt << 4) + bytes(payload)


def coe(svc, cmd, body):
    return struct.pack("<HB", svc << 12, cmd) + bytes(body)


def pad(b, n):
    b = bytes(b)
    return b + bytes(max(0, n - len(b)))


class SdoServer:
    def __init__(self, term, od, script=(), sdoinfo=None):
        self.term = term
        self.od = {k: bytes(v) for k, v in od.items()}
        self.script = list(script)
        self.slot = 0
        self.st = None              # None or dict(kind, key, buf, total, tog)
        self.log = []
        self.pending = []           # [delay, mail] not yet visible to the master
        self.cnt = 0
        self.sdoinfo = sdoinfo      # optional callable(server, parsed mail) -> list of payloads
        self._seen = 0              # index into term.accesses up to which writes are handled
        self.on_mail = None         # optional hook(parsed mail, raw) for other checks
        term.log_accesses = True
        term.add_handler(0x80d, 0x80e, self._poll, None)

    # ---- plumbing -----------------------------------------------------------------------
    def _poll(self, off, n):
        t = self.term
        if self.pending and t._mbx_in_current is None and not t.mbx_in_queue:
            if self.pending[0][0] > 0:
                self.pending[0][0] -= 1
            else:
                t.mbx_post(self.pending.pop(0)[1])
        return None                  # fall through to the terminal's own SM status register

    def _next_cnt(self):
        self.cnt = self.cnt % 7 + 1
        return self.cnt

    def _emit(self, mail, delay=0, **extra):
        m = parse_mail(mail)
        m.update(extra)
        self.log.append(dict(dir="s2c", m=m))
        self.pending.append([delay, mail])

    def __call__(self, term, mail):
        """called by SimTerminal when the last byte of the master -> terminal mailbox has been
        written.  The message is taken from the write that started at the mailbox start (its
        true length may exceed the mailbox; that is for the spec to judge)."""
        out, _ = term.mailboxes()
        _, start, length = out
        acc = term.accesses
        first = None
        for i in range(len(acc) - 1, self._seen - 1, -1):
            kind, off, data = acc[i]
            if kind == "w" and off == start:
                first = i
                break
        trigger = len(acc) - 1
        if first is None:
            # the closing write of a message whose first write already filled the mailbox
            # (already handled), or a stray write to the last byte: nothing new arrived
            self._seen = len(acc)
            return
        raw = acc[first][2]
        self._seen = len(acc)
        if first != trigger and len(raw) < length:
            # header+payload written first, then the last byte of the mailbox: the mailbox
            # holds the message followed by whatever the memory held
            pass
        m = parse_mail(raw)
        self.log.append(dict(dir="c2s", m=m))
        if self.on_mail is not None:
            self.on_mail(m, raw)
        self.handle(m)

    def _slot(self):
        s = self.script[self.slot] if self.slot < len(self.script) else {}
        self.slot += 1
        return s

    def handle(self, m):
        if m["mt"] != 3:
            return
        if m["svc"] == 8 and self.sdoinfo is not None:
            s = self._slot()
            for p in self.sdoinfo(self, m):
                self._emit(frame(3, self._next_cnt(), p), s.get("delay", 0), kind="sdoinfo")
            return
        if m["svc"] != 2:
            return
        if m["cmd"] >> 5 == 4:            # abort by the client: no answer
            self.st = None
            return
        s = self._slot()
        for u in s.get("mail", ()):
            self._emit(self.unrelated(u), 0, kind=u)
        if s.get("abort"):
            payload, kind = self.abort(m, ABORT_GENERAL), "abort"
        else:
            payload, kind = self.sdo(m, s)
        self._emit(frame(3, self._next_cnt(), payload), s.get("delay", 0), kind=kind)

    def unrelated(self, u):
        if u == "eoe":
            return frame(2, self._next_cnt(), bytes([0x10, 0, 0, 0, 1, 2, 3, 4]))
        if u == "emcy":
            return frame(3, self._next_cnt(), struct.pack("<HHB5s", 1 << 12, 0x8130, 0x11, b"emcy!"))
        raise ValueError(u)

    def abort(self, m, code):
        self.st = None
        addr = bytes(m["body"][:3]).ljust(3, b"\0")
        return coe(2, 0x80, addr + struct.pack("<I", code))

    # ---- the server actions of CoE.tla --------------------------------------------------
    def sdo(self, m, s):
        cmd, body = m["cmd"], bytes(m["body"])
        ccs, tog = cmd >> 5, (cmd >> 4) & 1
        mbx_in = self.term.mailboxes()[1][2]
        if ccs in (1, 2):                                   # initiate download / upload
            if len(body) < 7:
                return self.abort(m, ABORT_CMD), "abort"
            index, sub = struct.unpack_from("<HB", body, 0)
            ca = bool(cmd & 0x10)
            key = (index, ca, sub)
            if key not in self.od:
                return self.abort(m, ABORT_NOOBJ), "abort"
            addr = body[:3]
            f4, rest = body[3:7], body[7:]
        if ccs == 1:                                        # SrvDownInit
            e, si = (cmd >> 1) & 1, cmd & 1
            if e and si:
                self.od[key] = f4[:4 - ((cmd >> 2) & 3)]
                self.st = None
            elif not e and si:
                size, = struct.unpack("<I", f4)
                if len(rest) > size:
                    return self.abort(m, ABORT_LEN), "abort"
                if len(rest) == size:
                    self.od[key] = rest
                    self.st = None
                else:
                    self.st = dict(kind="down", key=key, buf=rest, total=size, tog=0)
            else:
                return self.abort(m, ABORT_CMD), "abort"
            return coe(3, 0x60 | (0x10 if ca else 0), addr + bytes(4)), "down_init_res"
        if ccs == 0:                                        # SrvDownSeg
            st = self.st
            if st is None or st["kind"] != "down" or len(body) < 7:
                return self.abort(m, ABORT_CMD), "abort"
            if tog != st["tog"]:
                return self.abort(m, ABORT_TOGGLE), "abort"
            n = 7 - ((cmd >> 1) & 7) if len(body) == 7 else len(body)
            nb = st["buf"] + body[:n]
            if cmd & 1:
                if len(nb) != st["total"]:
                    return self.abort(m, ABORT_LEN), "abort"
                self.od[st["key"]] = nb
                self.st = None
            else:
                if len(nb) > st["total"]:
                    return self.abort(m, ABORT_LEN), "abort"
                st["buf"] = nb
                st["tog"] ^= 1
            return coe(3, 0x20 | tog << 4, bytes(7)), "down_seg_res"
        if ccs == 2:                                        # SrvUpInit
            v = self.od[key]
            cabit = 0x10 if ca else 0
            if 1 <= len(v) <= 4 and not s.get("norm"):
                self.st = None
                return coe(3, 0x43 | cabit | (4 - len(v)) << 2, addr + pad(v, 4)), "up_exp_res"
            k = min(len(v), mbx_in - 16)
            if s.get("short"):
                k = max(0, k - 3)
            self.st = None if k == len(v) else dict(kind="up", key=key, buf=v[k:], total=len(v), tog=0)
            return coe(3, 0x41 | cabit, addr + struct.pack("<I", len(v)) + v[:k]), "up_norm_res"
        if ccs == 3:                                        # SrvUpSeg
            st = self.st
            if st is None or st["kind"] != "up":
                return self.abort(m, ABORT_CMD), "abort"
            if tog != st["tog"]:
                return self.abort(m, ABORT_TOGGLE), "abort"
            k = min(len(st["buf"]), mbx_in - 9)
            if s.get("short"):
                k = max(1, k - 3)
            seg, left = st["buf"][:k], st["buf"][k:]
            c = tog << 4 | (0 if left else 1) | ((7 - k) << 1 if k < 7 else 0)
            if left:
                st["buf"] = left
                st["tog"] ^= 1
            else:
                self.st = None
            return coe(3, c, pad(seg, 7)), "up_seg_res"
        return self.abort(m, ABORT_CMD), "abort"
