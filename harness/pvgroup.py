"""Real sync groups without hardware, packaged for the eBPF machine (used by C19 and C26).

`build_fast(ec, devices)` makes a REAL `FastSyncGroup` (allocate + the real `assemble()`), recording
the maps the generator creates (harness.progs).  `datagrams(frame)` parses an assembled EtherCAT
frame independently of the code under test (the positions of the datagrams' data areas are read
from the frame's own length fields, not from `pdo_assign`).  `run_sharded` runs a batch of
EbpfRun-style cases through several TLC processes at once."""
import json
import os
import threading

from . import progs, tlc as T

ETH = 14


def simple_ec():
    from ebpfcat.ebpfcat import SimpleEtherCat
    return SimpleEtherCat("x")


def build_fast(ec, devices):
    from ebpfcat.ebpfcat import FastSyncGroup
    with progs.recording() as maps:
        sg = FastSyncGroup(ec, devices)
        sg.allocate()
        code = sg.assemble()
    return progs.Built(sg, code, maps)


def build_slow(ec, devices):
    """a real slow SyncGroup, allocated, with `current_data` = its assembled frame (as start() does)"""
    from ebpfcat.ebpfcat import SyncGroup
    sg = SyncGroup(ec, devices)
    sg.allocate()
    sg.asm_packet = sg.packet.assemble(0)
    sg.current_data = bytearray(sg.asm_packet)
    return sg


def datagrams(frame, eth=0):
    """[(cmd, header position, data position, data length, working counter position)] of an EtherCAT
    frame; `eth` = number of bytes in front of the EtherCAT header (14 with an Ethernet header)"""
    out = []
    pos = eth + 2
    while True:
        cmd = frame[pos]
        ln = int.from_bytes(frame[pos + 6:pos + 8], "little")
        n = ln & 0x7ff
        out.append((cmd, pos, pos + 10, n, pos + 10 + n))
        pos += 12 + n
        if not ln & 0x8000:
            return out


def run_sharded(ctx, module, cfg, cases, tag, shards=4, timeout=1500):
    """run the cases through TLC in `shards` parallel single-worker processes (initial states are
    evaluated by one thread per TLC); returns {1-based case number: [record, ...]} for every printed
    `tag` record; the first element of a record is the case number within its shard"""
    wd = ctx.workdir()
    shards = max(1, min(shards, len(cases)))
    size = (len(cases) + shards - 1) // shards
    parts = [(s, cases[s:s + size]) for s in range(0, len(cases), size)]
    results, errors = {}, []

    def work(start, part):
        try:
            path = os.path.join(wd, f"cases_{start}.json")
            with open(path, "w") as f:
                json.dump(part, f)
            res = T.run(wd, module, cfg, workers=1, timeout=timeout, deadlock=False,
                        env={"TRACE_FILE": path})
            if res.error:
                raise T.MachineryError(f"{module} failed:\n{res.error[:3000]}\n{res.out[-1500:]}")
            recs = T.printed_records(res, tag)
            os.remove(path)
            results[start] = (res, recs)
        except BaseException as e:           # re-raised in the caller's thread
            errors.append(e)

    threads = [threading.Thread(target=work, args=p) for p in parts]
    for t in threads:
        t.start()
    for t in threads:
        t.join()
    if errors:
        raise errors[0]
    out = {}
    for start, (res, recs) in sorted(results.items()):
        ctx.tlc_stats(res)
        for r in recs:
            out.setdefault(start + r[0], []).append(r[1:])
    return out
