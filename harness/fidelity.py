"""Differential test of spec/Ebpf.tla against the kernel on random raw bytecode.

Programs are assembled here with struct.pack (no ebpfcat code involved): a prologue looks up an
array map and loads eight registers from it, a random body exercises ALU64/ALU32 (register and
immediate forms), byte swaps, LD_IMM64, stack and map loads/stores of every size, atomic adds
and forward conditional jumps (JMP and JMP32, every condition), and an epilogue stores the
registers back.  Machine and kernel must agree on the final map bytes and return value.

Constant operands the verifier refuses (constant shift >= width, constant division by zero) are
not generated; their register forms are, so the run-time conventions (division by zero gives 0,
remainder by zero keeps the dividend, shift amounts are masked) are compared too."""
import json
import os
import random
import struct
import sys

sys.path.insert(0, os.path.dirname(os.path.dirname(os.path.abspath(__file__))))
from harness import bpfdecode, kernel, tlc as T  # noqa: E402

REGS = [0, 1, 2, 3, 4, 5, 8, 9]          # r6 = ctx copy, r7 = map value pointer, r10 = frame
ALU = dict(add=0, sub=1, mul=2, div=3, or_=4, and_=5, lsh=6, rsh=7, neg=8, mod=9, xor=10, mov=11, arsh=12)
JCODES = [1, 2, 3, 4, 5, 6, 7, 10, 11, 12, 13]
BOUNDARY = [0, 1, 2, 3, 7, 8, 31, 32, 63, 64, 255, 256, 0x7fff, 0x8000, 0xffff, 0x7fffffff, 0x80000000,
            0xffffffff, 0x100000000, 0x7fffffffffffffff, 0x8000000000000000, 0xffffffffffffffff,
            0xfffffffffffffffe, 100000, 0xcf019d85]


def ins(op, dst=0, src=0, off=0, imm=0):
    return struct.pack("<BBhi", op, dst | src << 4, off, imm if imm < 2 ** 31 else imm - 2 ** 32)


def simm(rng):
    c = rng.random()
    if c < 0.3:
        return rng.choice([0, 1, -1, 2, 7, 255, 256, 65535, 65536, 2 ** 31 - 1, -2 ** 31, 100000])
    if c < 0.6:
        return rng.randrange(-2 ** 31, 2 ** 31)
    return rng.randrange(-300, 300)


def body_insn(rng, remaining):
    """one random body instruction (as bytes, possibly 16 for LD_IMM64); never the last slot's jump"""
    kind = rng.random()
    d = rng.choice(REGS)
    s = rng.choice(REGS)
    if kind < 0.55:                                       # ALU
        name = rng.choice(list(ALU))
        code = ALU[name]
        cls = rng.choice([7, 4])                          # ALU64 / ALU32
        width = 64 if cls == 7 else 32
        if name == "neg":
            return ins(code << 4 | cls, d)
        if rng.random() < 0.5:                            # register source
            return ins(code << 4 | 8 | cls, d, s)
        imm = simm(rng)
        if name in ("lsh", "rsh", "arsh"):
            imm = rng.randrange(width)
        if name in ("div", "mod") and imm == 0:
            imm = 3
        return ins(code << 4 | cls, d, 0, 0, imm)
    if kind < 0.62:                                       # byte swap
        return ins(0xd4 | (8 if rng.random() < 0.5 else 0), d, 0, 0, rng.choice([16, 32, 64]))
    if kind < 0.68:                                       # 64-bit immediate
        v = rng.choice(BOUNDARY) if rng.random() < 0.5 else rng.getrandbits(64)
        return ins(0x18, d, 0, 0, v & 0xffffffff) + ins(0, 0, 0, 0, v >> 32)
    if kind < 0.80:                                       # stack store then load, any size
        sz, szcode = rng.choice([(1, 0x10), (2, 0x08), (4, 0x00), (8, 0x18)])
        off = -rng.choice([8, 16, 24, 32, 64, 512 // sz * sz if sz == 8 else 40])
        if rng.random() < 0.5:
            st = ins(0x63 | szcode, 10, s, off)            # STX
        else:
            st = ins(0x62 | szcode, 10, 0, off, simm(rng))  # ST imm
        return st + ins(0x61 | szcode, d, 10, off)          # LDX back
    if kind < 0.86:                                       # map memory: store / load / atomic add
        sz, szcode = rng.choice([(4, 0x00), (8, 0x18)])
        off = 128 + rng.randrange(0, 64 // sz) * sz
        c = rng.random()
        if c < 0.4:
            return ins(0xc3 | szcode, 7, s, off)           # atomic add
        if c < 0.7:
            return ins(0x63 | szcode, 7, s, off)
        return ins(0x61 | szcode, d, 7, off)
    if remaining < 2:
        return ins(0xb7, d, 0, 0, simm(rng))              # mov64 imm
    code = rng.choice(JCODES)                              # forward conditional jump
    cls = rng.choice([5, 6])
    skip = rng.randrange(0, min(3, remaining - 1) + 1)
    if rng.random() < 0.5:
        return ("jmp", ins(code << 4 | 8 | cls, d, s, 0, 0), skip)
    return ("jmp", ins(code << 4 | cls, d, 0, 0, simm(rng)), skip)


def program(rng, map_fd, nbody):
    pro = b"".join([
        ins(0xbf, 6, 1),                                  # r6 = r1
        ins(0x62, 10, 0, -4, 0),                          # *(u32*)(r10-4) = 0
        ins(0x18, 1, 1, 0, map_fd), ins(0, 0, 0, 0, 0),   # r1 = map
        ins(0xbf, 2, 10), ins(0x07, 2, 0, 0, -4),         # r2 = r10 - 4
        ins(0x85, 0, 0, 0, 1),                            # call map_lookup_elem
        ins(0x55, 0, 0, 2, 0),                            # if r0 != 0 goto +2
        ins(0xb7, 0, 0, 0, 1), ins(0x95),                 # r0 = 1; exit
        ins(0xbf, 7, 0)])                                 # r7 = r0
    pro += b"".join(ins(0x79, r, 7, 8 * k) for k, r in enumerate(REGS))
    chunks = []
    for k in range(nbody):
        chunks.append(body_insn(rng, nbody - k))
    # resolve jumps: offsets count 8-byte slots of the following `skip` chunks
    body = b""
    for k, ch in enumerate(chunks):
        if isinstance(ch, tuple):
            _, raw, skip = ch
            slots = sum(len(c[1]) if isinstance(c, tuple) else len(c) for c in chunks[k + 1:k + 1 + skip]) // 8
            op, regs, _, imm = struct.unpack("<BBhi", raw)
            body += struct.pack("<BBhi", op, regs, slots, imm)
        else:
            body += ch
    epi = b"".join(ins(0x7b, 7, r, 64 + 8 * k) for k, r in enumerate(REGS))
    epi += ins(0xb7, 0, 0, 0, 2) + ins(0x95)
    return pro + body + epi


def run(n=300, seed=1, nbody=24, workers=8, verbose=True):
    if not kernel.available():
        print("kernel bpf() not available: fidelity check skipped")
        return None
    rng = random.Random(seed)
    fd = kernel.map_create(2, 4, 192, 1)
    cases, want, rejected = [], [], 0
    while len(cases) < n:
        code = program(rng, fd, nbody)
        try:
            pfd = kernel.prog_load(code)
        except kernel.VerifierReject as e:
            rejected += 1
            if rejected > 5 * n:
                raise RuntimeError("generator produces mostly rejected programs: " + e.log[-500:])
            continue
        for _ in range(3):
            regs = [rng.choice(BOUNDARY) if rng.random() < 0.5 else rng.getrandbits(rng.choice([8, 16, 32, 64]))
                    for _ in REGS]
            init = struct.pack("<8Q", *regs) + bytes(64) + bytes(rng.getrandbits(8) for _ in range(64))
            kernel.map_update(fd, bytes(4), init)
            rv, out = kernel.test_run(pfd, bytes(64))
            final = kernel.map_lookup(fd, bytes(4), 192)
            insns = bpfdecode.split(code)
            for i in insns:
                if i["op"] == 0x18 and i["src"] == 1:
                    i["imm"] = [1, 0, 0, 0]
            cases.append(dict(programs=[insns], entry=1, maps=[dict(type="array", ks=4, vs=192, max=1)],
                              progs=[[]], orc=[], pkt=[0] * 64, arr=[dict(fd=1, bytes=list(init))],
                              hash=[], fuel=2000))
            want.append((rv, final, code))
        os.close(pfd)
    os.close(fd)
    wd = T.workdir("fidelity")
    T.stage(wd)
    path = os.path.join(wd, "cases.json")
    json.dump(cases, open(path, "w"))
    res = T.run(wd, "EbpfRun", "EbpfRun.cfg", workers=workers, timeout=1800, deadlock=False,
                env={"TRACE_FILE": path})
    if res.error:
        T.cleanup(wd)
        raise T.MachineryError("EbpfRun failed:\n" + res.error[:3000])
    got = {r[0]: r[1] for r in T.printed_records(res, "RUN")}
    bad = []
    for k, (rv, final, code) in enumerate(want, 1):
        r = got.get(k)
        if r is None or r["st"] != ["exit"] or int.from_bytes(bytes(r["r0"]), "little") != rv \
                or bytes(r["arr"][0]) != final:
            bad.append((k, r and r["st"], code.hex(), cases[k - 1]["arr"][0]["bytes"], final.hex(),
                        r and bytes(r["arr"][0]).hex()))
    T.cleanup(wd)
    if verbose:
        print(f"fidelity: {len(cases)} runs of {len(cases) // 3} verifier-accepted random programs "
              f"({rejected} rejected by the verifier and skipped), TLC {res.wall:.1f}s, mismatches {len(bad)}")
        for b in bad[:5]:
            print("  case", b[0], "machine status", b[1])
    return dict(runs=len(cases), programs=len(cases) // 3, rejected=rejected, mismatches=bad, wall=res.wall)


if __name__ == "__main__":
    r = run(n=int(sys.argv[1]) if len(sys.argv) > 1 else 300, seed=int(sys.argv[2]) if len(sys.argv) > 2 else 1)
    sys.exit(0 if r is None or not r["mismatches"] else 1)


# ---------------------------------------------------------------------------------------------
# targeted cross-checks for what the random generator does not reach
# ---------------------------------------------------------------------------------------------

def _lookup_arr(map_no_or_fd):
    """r7 = pointer to element 0 of the array map, or exit 1"""
    return b"".join([
        ins(0xbf, 6, 1), ins(0x62, 10, 0, -4, 0),
        ins(0x18, 1, 1, 0, map_no_or_fd), ins(0, 0, 0, 0, 0),
        ins(0xbf, 2, 10), ins(0x07, 2, 0, 0, -4), ins(0x85, 0, 0, 0, 1),
        ins(0x55, 0, 0, 2, 0), ins(0xb7, 0, 0, 0, 1), ins(0x95), ins(0xbf, 7, 0)])


def packet_program(arr_fd, need):
    """guarded packet reads of 1/2/4/8 bytes into the map, a packet write, PASS; short packet: DROP"""
    p = _lookup_arr(arr_fd)
    p += ins(0x61, 2, 6, 0) + ins(0x61, 3, 6, 4)            # r2 = data, r3 = data_end
    p += ins(0xbf, 4, 2) + ins(0x07, 4, 0, 0, need)         # r4 = data + need
    body = b"".join([
        ins(0x71, 5, 2, 3), ins(0x7b, 7, 5, 0),             # u8  at 3
        ins(0x69, 5, 2, 4), ins(0x7b, 7, 5, 8),             # u16 at 4
        ins(0x61, 5, 2, 8), ins(0x7b, 7, 5, 16),            # u32 at 8
        ins(0x79, 5, 2, need - 8), ins(0x7b, 7, 5, 24),     # u64 at the end of the guarded range
        ins(0x72, 2, 0, 1, 0xab), ins(0x6a, 2, 0, 6, 0x1234),   # packet writes
        ins(0xb7, 0, 0, 0, 2), ins(0x95)])
    p += ins(0x2d, 4, 3, len(body) // 8, 0)                 # if r4 > r3 goto drop
    return p + body + ins(0xb7, 0, 0, 0, 1) + ins(0x95)


def hash_program(arr_fd, hash_fd):
    """key = first 2 map bytes; update(flag from map) / lookup+modify / delete; return codes to the map"""
    p = _lookup_arr(arr_fd)
    p += ins(0x69, 1, 7, 0) + ins(0x6b, 10, 1, -8)          # key (u16) -> stack -8
    p += ins(0x79, 1, 7, 8) + ins(0x7b, 10, 1, -24)         # value (u64) -> stack -24
    call = lambda f: ins(0x18, 1, 1, 0, hash_fd) + ins(0, 0, 0, 0, 0) + ins(0xbf, 2, 10) + ins(0x07, 2, 0, 0, -8) + f
    p += call(ins(0xbf, 3, 10) + ins(0x07, 3, 0, 0, -24) + ins(0x79, 4, 7, 16) + ins(0x85, 0, 0, 0, 2))
    p += ins(0x7b, 7, 0, 32)                                # update result
    p += call(ins(0x85, 0, 0, 0, 1))                        # lookup
    p += ins(0x15, 0, 0, 4, 0)                              # if r0 == 0 skip modification
    p += ins(0x79, 1, 0, 0) + ins(0x7b, 7, 1, 40)           # read value through the pointer
    p += ins(0x07, 1, 0, 0, 5) + ins(0x7b, 0, 1, 0)         # value += 5 through the pointer
    p += ins(0x79, 1, 7, 24) + ins(0x15, 1, 0, 6, 0)        # delete only if map[24] != 0 (skip 5 + 1 slots)
    p += call(ins(0x85, 0, 0, 0, 3)) + ins(0x7b, 7, 0, 48)  # delete result
    return p + ins(0xb7, 0, 0, 0, 2) + ins(0x95)


def tail_programs(arr_fd, prog_fd):
    main = _lookup_arr(arr_fd)
    main += ins(0x61, 3, 7, 0)                              # r3 = index from map
    main += ins(0x62, 7, 0, 8, 0x11)                        # marker: main ran
    main += ins(0xbf, 1, 6) + ins(0x18, 2, 1, 0, prog_fd) + ins(0, 0, 0, 0, 0) + ins(0x85, 0, 0, 0, 12)
    main += ins(0x62, 7, 0, 12, 0x22)                       # marker: fell through
    main += ins(0xb7, 0, 0, 0, 2) + ins(0x95)
    callee = _lookup_arr(arr_fd) + ins(0x62, 7, 0, 16, 0x33) + ins(0xb7, 0, 0, 0, 3) + ins(0x95)
    return main, callee


def _renumber(code, mapping):
    insns = bpfdecode.split(code)
    for i in insns:
        if i["op"] == 0x18 and i["src"] == 1:
            i["imm"] = list(mapping[int.from_bytes(bytes(i["imm"]), "little")].to_bytes(4, "little"))
    return insns


def targeted(workers=4, verbose=True):
    if not kernel.available():
        print("kernel bpf() not available: targeted fidelity skipped")
        return None
    rng = random.Random(7)
    cases, want, labels = [], [], []
    arr = kernel.map_create(2, 4, 64, 1)
    # 1. packet access around the guard
    need = 24
    code = packet_program(arr, need)
    pfd = kernel.prog_load(code)
    for ln in (14, 15, 23, 24, 25, 32, 64):
        pkt = bytes(rng.getrandbits(8) for _ in range(ln))
        kernel.map_update(arr, bytes(4), bytes(64))
        rv, out = kernel.test_run(pfd, pkt)
        cases.append(dict(programs=[_renumber(code, {arr: 1})], entry=1, maps=[dict(type="array", ks=4, vs=64, max=1)],
                          progs=[[]], orc=[], pkt=list(pkt), arr=[dict(fd=1, bytes=[0] * 64)], hash=[], fuel=500))
        want.append(dict(rv=rv, arr=kernel.map_lookup(arr, bytes(4), 64), pkt=out, hash=None))
        labels.append(f"packet len {ln} guard {need}")
    os.close(pfd)
    # 2. hash helpers: absent/present key x flags ANY/NOEXIST/EXIST x delete or not
    for present in (False, True):
        for flag in (0, 1, 2):
            for dele in (0, 1):
                h = kernel.map_create(1, 2, 8, 2)
                code = hash_program(arr, h)
                pfd = kernel.prog_load(code)
                key = bytes([0x34, 0x12])
                init = key + bytes(6) + struct.pack("<QQQ", 1000, flag, dele) + bytes(32)
                kernel.map_update(arr, bytes(4), init)
                pre = []
                if present:
                    kernel.map_update(h, key, struct.pack("<Q", 77))
                    pre = [dict(fd=2, key=list(key), val=list(struct.pack("<Q", 77)))]
                rv, out = kernel.test_run(pfd, bytes(64))
                hv = kernel.map_lookup(h, key, 8)
                cases.append(dict(programs=[_renumber(code, {arr: 1, h: 2})], entry=1,
                                  maps=[dict(type="array", ks=4, vs=64, max=1), dict(type="hash", ks=2, vs=8, max=2)],
                                  progs=[[], []], orc=[], pkt=[0] * 64, arr=[dict(fd=1, bytes=list(init))],
                                  hash=pre, fuel=500))
                want.append(dict(rv=rv, arr=kernel.map_lookup(arr, bytes(4), 64), pkt=out,
                                 hash=[] if hv is None else [[2, list(key), list(hv)]]))
                labels.append(f"hash present={present} flag={flag} delete={dele}")
                os.close(pfd)
                os.close(h)
    # 3. tail calls: registered index, empty index, out-of-range index
    pa = kernel.map_create(3, 4, 4, 8)
    main, callee = tail_programs(arr, pa)
    cfd = kernel.prog_load(callee)
    kernel.map_update(pa, struct.pack("<I", 3), struct.pack("<I", cfd))
    mfd = kernel.prog_load(main)
    for idx in (3, 2, 8, 0xffffffff):
        init = struct.pack("<I", idx) + bytes(60)
        kernel.map_update(arr, bytes(4), init)
        rv, out = kernel.test_run(mfd, bytes(64))
        cases.append(dict(programs=[_renumber(main, {arr: 1, pa: 2}), _renumber(callee, {arr: 1, pa: 2})], entry=1,
                          maps=[dict(type="array", ks=4, vs=64, max=1), dict(type="prog", ks=4, vs=4, max=8)],
                          progs=[[], [0, 0, 0, 2, 0, 0, 0, 0]], orc=[], pkt=[0] * 64,
                          arr=[dict(fd=1, bytes=list(init))], hash=[], fuel=500))
        want.append(dict(rv=rv, arr=kernel.map_lookup(arr, bytes(4), 64), pkt=out, hash=None))
        labels.append(f"tail call index {idx}")
    for fd in (mfd, cfd, pa, arr):
        os.close(fd)
    wd = T.workdir("fidtarget")
    T.stage(wd)
    path = os.path.join(wd, "cases.json")
    json.dump(cases, open(path, "w"))
    res = T.run(wd, "EbpfRun", "EbpfRun.cfg", workers=workers, timeout=600, deadlock=False, env={"TRACE_FILE": path})
    T.cleanup(wd)
    if res.error:
        raise T.MachineryError("EbpfRun failed:\n" + res.error[:3000])
    got = {r[0]: r[1] for r in T.printed_records(res, "RUN")}
    bad = []
    for k, (w, lab) in enumerate(zip(want, labels), 1):
        r = got.get(k)
        why = []
        if r is None:
            why.append("no result")
        else:
            if r["st"] != ["exit"]:
                why.append(f"machine status {r['st']}")
            elif int.from_bytes(bytes(r["r0"]), "little") != w["rv"]:
                why.append(f"r0 machine {int.from_bytes(bytes(r['r0']), 'little')} kernel {w['rv']}")
            if bytes(r["arr"][0]) != w["arr"]:
                why.append(f"map machine {bytes(r['arr'][0]).hex()} kernel {w['arr'].hex()}")
            if bytes(r["pkt"]) != w["pkt"]:
                why.append("packet differs")
            if w["hash"] is not None and sorted(r["hash"]) != sorted(w["hash"]):
                why.append(f"hash machine {r['hash']} kernel {w['hash']}")
        if why:
            bad.append((lab, why))
        if verbose:
            print(("MISMATCH " if why else "ok       ") + lab + ("  kernel r0=%d" % w["rv"]) + ("  " + "; ".join(why) if why else ""))
    if verbose:
        print(f"targeted fidelity: {len(cases)} cases, mismatches {len(bad)}")
    return dict(cases=len(cases), mismatches=bad)
