"""Differential test of spec/Ebpf.tla against the kernel on random raw bytecode.

Programs are assembled here with struct.pack (no ebpfcat code involved): a prologue looks up an
array map and loads eight registers from it, a random body exercises ALU64/ALU32 (register and
immediate forms), byte swaps, LD_IMM64, stack and map loads/stores of every size, atomic adds
and forward conditional jumps (JMP and JMP32, every condition), and an epilogue stores the
registers back.  Machine and kernel must agree on the final map bytes and return value.

Constant operands the verifier refuses (constant shift >= width, constant division by zero) are
not generated; their register forms are, so the run-time conventions (division by zero gives 0,
remainder by zero keeps the dividend, shift amounts are masked) are compared too."""
import json
import os
import random
import struct
import sys

sys.path.insert(0, os.path.dirname(os.path.dirname(os.path.abspath(__file__))))
from harness import bpfdecode, kernel, tlc as T  # noqa: E402

REGS = [0, 1, 2, 3, 4, 5, 8, 9]          # r6 = ctx copy, r7 = map value pointer, r10 = frame
ALU = dict(add=0, sub=1, mul=2, div=3, or_=4, and_=5, lsh=6, rsh=7, neg=8, mod=9, xor=10, mov=11, arsh=12)
JCODES = [1, 2, 3, 4, 5, 6, 7, 10, 11, 12, 13]
BOUNDARY = [0, 1, 2, 3, 7, 8, 31, 32, 63, 64, 255, 256, 0x7fff, 0x8000, 0xffff, 0x7fffffff, 0x80000000,
            0xffffffff, 0x100000000, 0x7fffffffffffffff, 0x8000000000000000, 0xffffffffffffffff,
            0xfffffffffffffffe, 100000, 0xcf019d85]


def ins(op, dst=0, src=0, off=0, imm=0):
    return struct.pack("<BBhi", op, dst | src << 4, off, imm if imm < 2 ** 31 else imm - 2 ** 32)


def simm(rng):
    c = rng.random()
    if c < 0.3:
        return rng.choice([0, 1, -1, 2, 7, 255, 256, 65535, 65536, 2 ** 31 - 1, -2 ** 31, 100000])
    if c < 0.6:
        return rng.randrange(-2 ** 31, 2 ** 31)
    return rng.randrange(-300, 300)


def body_insn(rng, remaining):
    """one random body instruction (as bytes, possibly 16 for LD_IMM64); never the last slot's jump"""
    kind = rng.random()
    d = rng.choice(REGS)
    s = rng.choice(REGS)
    if kind < 0.55:                                       # ALU
        name = rng.choice(list(ALU))
        code = ALU[name]
        cls = rng.choice([7, 4])                          # ALU64 / ALU32
        width = 64 if cls == 7 else 32
        if name == "neg":
            return ins(code << 4 | cls, d)
        if rng.random() < 0.5:                            # register source
            return ins(code << 4 | 8 | cls, d, s)
        imm = simm(rng)
        if name in ("lsh", "rsh", "arsh"):
            imm = rng.randrange(width)
        if name in ("div", "mod") and imm == 0:
            imm = 3
        return ins(code << 4 | cls, d, 0, 0, imm)
    if kind < 0.62:                                       # byte swap
        return ins(0xd4 | (8 if rng.random() < 0.5 else 0), d, 0, 0, rng.choice([16, 32, 64]))
    if kind < 0.68:                                       # 64-bit immediate
        v = rng.choice(BOUNDARY) if rng.random() < 0.5 else rng.getrandbits(64)
        return ins(0x18, d, 0, 0, v & 0xffffffff) + ins(0, 0, 0, 0, v >> 32)
    if kind < 0.80:                                       # stack store then load, any size
        sz, szcode = rng.choice([(1, 0x10), (2, 0x08), (4, 0x00), (8, 0x18)])
        off = -rng.choice([8, 16, 24, 32, 64, 512 // sz * sz if sz == 8 else 40])
        if rng.random() < 0.5:
            st = ins(0x63 | szcode, 10, s, off)            # STX
        else:
            st = ins(0x62 | szcode, 10, 0, off, simm(rng))  # ST imm
        return st + ins(0x61 | szcode, d, 10, off)          # LDX back
    if kind < 0.86:                                       # map memory: store / load / atomic add
        sz, szcode = rng.choice([(4, 0x00), (8, 0x18)])
        off = 128 + rng.randrange(0, 64 // sz) * sz
        c = rng.random()
        if c < 0.4:
            return ins(0xc3 | szcode, 7, s, off)           # atomic add
        if c < 0.7:
            return ins(0x63 | szcode, 7, s, off)
        return ins(0x61 | szcode, d, 7, off)
    if remaining < 2:
        return ins(0xb7, d, 0, 0, simm(rng))              # mov64 imm
    code = rng.choice(JCODES)                              # forward conditional jump
    cls = rng.choice([5, 6])
    skip = rng.randrange(0, min(3, remaining - 1) + 1)
    if rng.random() < 0.5:
        return ("jmp", ins(code << 4 | 8 | cls, d, s, 0, 0), skip)
    return ("jmp", ins(code << 4 | cls, d, 0, 0, simm(rng)), skip)


def program(rng, map_fd, nbody):
    pro = b"".join([
        ins(0xbf, 6, 1),                                  # r6 = r1
        ins(0x62, 10, 0, -4, 0),                          # *(u32*)(r10-4) = 0
        ins(0x18, 1, 1, 0, map_fd), ins(0, 0, 0, 0, 0),   # r1 = map
        ins(0xbf, 2, 10), ins(0x07, 2, 0, 0, -4),         # r2 = r10 - 4
        ins(0x85, 0, 0, 0, 1),                            # call map_lookup_elem
        ins(0x55, 0, 0, 2, 0),                            # if r0 != 0 goto +2
        ins(0xb7, 0, 0, 0, 1), ins(0x95),                 # r0 = 1; exit
        ins(0xbf, 7, 0)])                                 # r7 = r0
    pro += b"".join(ins(0x79, r, 7, 8 * k) for k, r in enumerate(REGS))
    chunks = []
    for k in range(nbody):
        chunks.append(body_insn(rng, nbody - k))
    # resolve jumps: offsets count 8-byte slots of the following `skip` chunks
    body = b""
    for k, ch in enumerate(chunks):
        if isinstance(ch, tuple):
            _, raw, skip = ch
            slots = sum(len(c[1]) if isinstance(c, tuple) else len(c) for c in chunks[k + 1:k + 1 + skip]) // 8
            op, regs, _, imm = struct.unpack("<BBhi", raw)
            body += struct.pack("<BBhi", op, regs, slots, imm)
        else:
            body += ch
    epi = b"".join(ins(0x7b, 7, r, 64 + 8 * k) for k, r in enumerate(REGS))
    epi += ins(0xb7, 0, 0, 0, 2) + ins(0x95)
    return pro + body + epi


def run(n=300, seed=1, nbody=24, workers=8, verbose=True):
    if not kernel.available():
        print("kernel bpf() not available: fidelity check skipped")
        return None
    rng = random.Random(seed)
    fd = kernel.map_create(2, 4, 192, 1)
    cases, want, rejected = [], [], 0
    while len(cases) < n:
        code = program(rng, fd, nbody)
        try:
            pfd = kernel.prog_load(code)
        except kernel.VerifierReject as e:
            rejected += 1
            if rejected > 5 * n:
                raise RuntimeError("generator produces mostly rejected programs: " + e.log[-500:])
            continue
        for _ in range(3):
            regs = [rng.choice(BOUNDARY) if rng.random() < 0.5 else rng.getrandbits(rng.choice([8, 16, 32, 64]))
                    for _ in REGS]
            init = struct.pack("<8Q", *regs) + bytes(64) + bytes(rng.getrandbits(8) for _ in range(64))
            kernel.map_update(fd, bytes(4), init)
            rv, out = kernel.test_run(pfd, bytes(64))
            final = kernel.map_lookup(fd, bytes(4), 192)
            insns = bpfdecode.split(code)
            for i in insns:
                if i["op"] == 0x18 and i["src"] == 1:
                    i["imm"] = [1, 0, 0, 0]
            cases.append(dict(programs=[insns], entry=1, maps=[dict(type="array", ks=4, vs=192, max=1)],
                              progs=[[]], orc=[], pkt=[0] * 64, arr=[dict(fd=1, bytes=list(init))],
                              hash=[], fuel=2000))
            want.append((rv, final, code))
        os.close(pfd)
    os.close(fd)
    wd = T.workdir("fidelity")
    T.stage(wd)
    path = os.path.join(wd, "cases.json")
    json.dump(cases, open(path, "w"))
    res = T.run(wd, "EbpfRun", "EbpfRun.cfg", workers=workers, timeout=1800, deadlock=False,
                env={"TRACE_FILE": path})
    if res.error:
        T.cleanup(wd)
        raise T.MachineryError("EbpfRun failed:\n" + res.error[:3000])
    got = {r[0]: r[1] for r in T.printed_records(res, "RUN")}
    bad = []
    for k, (rv, final, code) in enumerate(want, 1):
        r = got.get(k)
        if r is None or r["st"] != ["exit"] or int.from_bytes(bytes(r["r0"]), "little") != rv \
                or bytes(r["arr"][0]) != final:
            bad.append((k, r and r["st"], code.hex(), cases[k - 1]["arr"][0]["bytes"], final.hex(),
                        r and bytes(r["arr"][0]).hex()))
    T.cleanup(wd)
    if verbose:
        print(f"fidelity: {len(cases)} runs of {len(cases) // 3} verifier-accepted random programs "
              f"({rejected} rejected by the verifier and skipped), TLC {res.wall:.1f}s, mismatches {len(bad)}")
        for b in bad[:5]:
            print("  case", b[0], "machine status", b[1])
    return dict(runs=len(cases), programs=len(cases) // 3, rejected=rejected, mismatches=bad, wall=res.wall)


if __name__ == "__main__":
    r = run(n=int(sys.argv[1]) if len(sys.argv) > 1 else 300, seed=int(sys.argv[2]) if len(sys.argv) > 2 else 1)
    sys.exit(0 if r is None or not r["mismatches"] else 1)
