"""The bundled terminals a Motor device can be linked to, as DEVICES (used by C26).

terminals.py declares, per terminal class, which CoE objects carry the velocity output, the enable
bit, the limit switches and the encoder position, and overrides the format of some of them.  What
those objects ARE - their place in the PDO mapping and their data type - is a fact about the device,
not about the class, so it is written down here independently (object dictionaries as in the
vendor's documentation; for the EL7062, whose mapping contents we do not have, a stand-in that is
consistent with the class's own PDO assignment lists):

  * `DICTIONARY[kind]` is what the terminal answers over CoE: the assignment objects 0x1c12 / 0x1c13
    and the mapping objects with their (bits, subindex, index) entries.  A real terminal object of
    the bundled class reads it through the package's own `parse_pdos` (only `sdo_read` is faked), so
    its `pdos` table is what the package derives - a 16-bit entry is "H" there, whatever it means.
  * `ROLES[kind][channel]` says which object plays which role for a motor and what its data type
    is: the velocity command and the encoder position are SIGNED two's-complement numbers of the
    mapped width, switches and enable are single bits.
  * `walk(kind)` computes, without any package code, where every mapped object lies in the
    terminal's process data: {(index, subindex): (sm, byte offset, bit offset in that byte, bits)}.
"""
import asyncio

OUT, IN = "OUT", "IN"


def _stat(idx):          # a 16-bit status word of single bits, as DCM / STM status objects have
    return [(1, s, idx) for s in range(1, 8)] + [(4, 0, 0), (1, 0xc, idx), (1, 0xd, idx), (1, 0xe, idx),
                                                 (1, 0, 0), (1, 0x10, idx)]


def _ctrl(idx):          # enable, reset, reduce torque + padding to 16 bits
    return [(1, 1, idx), (1, 2, idx), (1, 3, idx), (5, 0, 0), (8, 0, 0)]


DICTIONARY = {
    # 1-channel stepper with encoder input
    "EL7041": {
        0x1c12: [0x1601, 0x1602, 0x1604], 0x1c13: [0x1A01, 0x1A03],
        0x1601: [(1, 1, 0x7000), (1, 2, 0x7000), (1, 3, 0x7000), (1, 4, 0x7000), (4, 0, 0), (8, 0, 0),
                 (32, 0x11, 0x7000)],
        0x1602: _ctrl(0x7010),
        0x1604: [(16, 0x21, 0x7010)],
        0x1A01: [(1, s, 0x6000) for s in range(1, 9)] + [(8, 0, 0), (32, 0x11, 0x6000), (32, 0x12, 0x6000)],
        0x1A03: _stat(0x6010),
    },
    # 2-channel DC motor output stage, no encoder
    "EL7332": {
        0x1c12: [0x1600, 0x1601, 0x1602, 0x1603], 0x1c13: [0x1A00, 0x1A01],
        0x1600: _ctrl(0x7020), 0x1601: [(16, 0x21, 0x7020)],
        0x1602: _ctrl(0x7030), 0x1603: [(16, 0x21, 0x7030)],
        0x1A00: _stat(0x6020), 0x1A01: _stat(0x6030),
    },
    # 2-channel stepper, drive-profile objects (stand-in mapping contents, see module docstring)
    "EL7062": {
        0x1c12: [0x1600, 0x1601, 0x1680, 0x1681], 0x1c13: [0x1A00, 0x1A01, 0x1A10, 0x1A80, 0x1A81, 0x1A90],
        0x1600: [(16, 1, 0x7010)], 0x1601: [(32, 6, 0x7010)],
        0x1680: [(16, 1, 0x7110)], 0x1681: [(32, 6, 0x7110)],
        0x1A00: [(16, 1, 0x6010)], 0x1A01: [(32, 0x11, 0x6000)],
        0x1A10: [(1, 1, 0x6020), (1, 2, 0x6020), (6, 0, 0), (8, 0, 0)],
        0x1A80: [(16, 1, 0x6110)], 0x1A81: [(32, 0x11, 0x6100)],
        0x1A90: [(1, 1, 0x6120), (1, 2, 0x6120), (6, 0, 0), (8, 0, 0)],
    },
    # 2-channel absolute encoder interface, 64-bit position
    "EL5042": {
        0x1c12: [], 0x1c13: [0x1A00, 0x1A01],
        0x1A00: [(1, 1, 0x6000), (1, 2, 0x6000), (1, 3, 0x6000), (5, 0, 0), (4, 0, 0), (1, 0xd, 0x6000),
                 (1, 0xe, 0x6000), (2, 0xf, 0x6000), (64, 0x11, 0x6000)],
        0x1A01: [(1, 1, 0x6010), (1, 2, 0x6010), (1, 3, 0x6010), (5, 0, 0), (4, 0, 0), (1, 0xd, 0x6010),
                 (1, 0xe, 0x6010), (2, 0xf, 0x6010), (64, 0x11, 0x6010)],
    },
}

# role -> (index, subindex, bit inside the object or None); `attr` is the Struct attribute of the
# bundled class that stands for the channel (None: the variables are on the terminal itself)
ROLES = {
    "EL7041": {1: dict(attr=None, velocity=(0x7010, 0x21, None), enable=(0x7010, 1, None),
                       high=(0x6010, 0xc, None), low=(0x6010, 0xd, None), counter=(0x6000, 0x11, None))},
    "EL7332": {1: dict(attr="channel1", velocity=(0x7020, 0x21, None), enable=(0x7020, 1, None),
                       low=(0x6020, 0xc, None), high=(0x6020, 0xd, None)),
               2: dict(attr="channel2", velocity=(0x7030, 0x21, None), enable=(0x7030, 1, None),
                       low=(0x6030, 0xc, None), high=(0x6030, 0xd, None))},
    # enable = bit 1 of the control word
    "EL7062": {1: dict(attr="channel1", velocity=(0x7010, 6, None), enable=(0x7010, 1, 1),
                       low=(0x6020, 1, None), high=(0x6020, 2, None), counter=(0x6000, 0x11, None)),
               2: dict(attr="channel2", velocity=(0x7110, 6, None), enable=(0x7110, 1, 1),
                       low=(0x6120, 1, None), high=(0x6120, 2, None), counter=(0x6100, 0x11, None))},
    "EL5042": {1: dict(attr="channel1", counter=(0x6000, 0x11, None)),
               2: dict(attr="channel2", counter=(0x6010, 0x11, None))},
}
# the attribute names the bundled classes use for the roles
ATTR = dict(velocity="velocity", enable="enable", low="low_switch", high="high_switch", counter="stepcounter")
ATTR_OF = {"EL5042": dict(counter="position")}


def walk(kind, dictionary=None):
    """{(index, subindex): (sm, byte, bit, bits)} and the sizes in bytes (out, in) of the process data"""
    d = dictionary or DICTIONARY[kind]
    where, sizes = {}, {}
    for sm, assign in ((OUT, 0x1c12), (IN, 0x1c13)):
        bitpos = 0
        for pdo in d[assign]:
            for bits, sub, idx in d[pdo]:
                if idx:
                    where[idx, sub] = (sm, bitpos // 8, bitpos % 8, bits)
                bitpos += bits
        sizes[sm] = (bitpos + 7) // 8
    return where, sizes


def hand_walk(pdos):
    """the same for a hand-written table {(index, subindex): (sm, byte, bit number or format letter)}"""
    n = {"B": 8, "H": 16, "I": 32, "Q": 64}
    return {k: (sm, off, what if isinstance(what, int) else 0, 1 if isinstance(what, int) else n[what])
            for k, (sm, off, what) in pdos.items()}


def locate(where, role):
    """(sm, byte offset, bit or None, bytes) of a role's object"""
    idx, sub, inner = role
    sm, byte, bit, bits = where[idx, sub]
    if inner is not None:                       # a bit inside a wider object
        return sm, byte + (bit + inner) // 8, (bit + inner) % 8, None
    if bits < 8:
        return sm, byte, bit, None
    if bit:
        raise ValueError("unaligned object")
    return sm, byte, None, bits // 8


class FakeCoE:
    """answers sdo_read from DICTIONARY as the terminal's CoE server would"""
    coe_dictionary = None

    def has_mailbox(self):
        return True

    async def sdo_read(self, index, subindex=None):
        from struct import pack
        entries = self.coe_dictionary[index]
        if subindex == 0:
            return pack("B", len(entries))
        e = entries[subindex - 1]
        return pack("<H", e) if isinstance(e, int) else pack("<BBH", *e)


def make_terminal(ec, kind, position, use_fmmu, in_off, out_off, hand=None):
    """a real object of the bundled class; its `pdos` come from the package's own parse_pdos over the
    faked CoE dictionary (or from a hand-written table), sizes as apply_eeprom computes them.
    Returns (terminal, where) with `where` from walk()/hand_walk() - the harness's own knowledge."""
    import ebpfcat.terminals as terminals
    from ebpfcat.ethercat import SyncManager
    cls = type("Sim" + kind, (FakeCoE, getattr(terminals, kind)), dict(coe_dictionary=DICTIONARY[kind]))
    t = cls(ec)
    t.position = position
    t.use_fmmu = use_fmmu
    t.pdo_in_off, t.pdo_out_off = in_off, out_off
    if hand is None:
        outbits, inbits = asyncio.run(t.parse_pdos())
        t.pdo_out_sz, t.pdo_in_sz = int((outbits + 7) // 8), int((inbits + 7) // 8)
        where, sizes = walk(kind)
        if (t.pdo_out_sz, t.pdo_in_sz) != (sizes[OUT], sizes[IN]):
            raise AssertionError(f"{kind}: parse_pdos sizes {(t.pdo_out_sz, t.pdo_in_sz)} vs {sizes}")
    else:
        sm = {IN: SyncManager.IN, OUT: SyncManager.OUT}
        t.pdos = {k: (sm[s], off, what) for k, (s, off, what) in hand["pdos"].items()}
        t.pdo_in_sz, t.pdo_out_sz = hand["in_sz"], hand["out_sz"]
        where = hand_walk(hand["pdos"])
    return t, where


def channel(t, kind, chan):
    """the object of the bundled class that carries the channel's variables"""
    attr = ROLES[kind][chan]["attr"]
    return t if attr is None else getattr(t, attr)


def attr_name(kind, role):
    return ATTR_OF.get(kind, {}).get(role, ATTR[role])


def regions(frame, terms, eth=0):
    """start of every (terminal number, sm) region in the frame, from the frame itself.
    terms: [dict(position, use_fmmu, in_sz, out_sz, in_off, out_off, rw)] - rw: an output is linked"""
    from .pvgroup import datagrams
    LRD, LWR, FPRD, FPWR = 10, 11, 4, 5
    dgs = datagrams(frame, eth)
    out, cum = {}, {IN: 0, OUT: 0}
    for i in sorted(range(len(terms)), key=lambda i: terms[i]["position"]):
        t = terms[i]
        for sm, size, off, cl, cd in ((IN, t["in_sz"], t["in_off"], LRD, FPRD),
                                      (OUT, t["out_sz"], t["out_off"], LWR, FPWR)):
            if not size or (sm == OUT and not t["rw"]):
                continue
            if t["use_fmmu"]:
                (d,) = [d for d in dgs if d[0] == cl]
                out[i, sm] = d[2] + cum[sm]
                cum[sm] += size
            else:
                (d,) = [d for d in dgs if d[0] == cd
                        and int.from_bytes(frame[d[1] + 2:d[1] + 4], "little") == t["position"]
                        and int.from_bytes(frame[d[1] + 4:d[1] + 6], "little") == off and d[3] == size]
                out[i, sm] = d[2]
    return out, dgs
