"""A fake bpf(2) for the user-space side of ebpfcat's maps (C08 / C09 / C10).

`FakeKernel.install()` interposes on the library at two levels, without touching its source:

1. `ebpfcat.bpf.bpf` - the single syscall wrapper - is replaced by `FakeKernel.bpf`.  Every call
   reaching it is decoded (command + attr fields) and recorded as an event together with the ACTUAL
   length of the Python object behind each user pointer.  The wrappers pass bare addresses
   (`addrof()` / `addressof(c_char.from_buffer(...))`), so the objects are found again by walking
   the callers' frames (`sys._getframe(1).f_locals`, then outwards) and comparing the address of
   every buffer-like local - computed exactly the way `ebpfcat.bpf.addrof` computes it - with the
   address in the attr.  A change inside `_lookup_elem` / `get_next_key` (the `value` / `ret`
   bytearrays they allocate) is therefore seen.
2. the public functions (`lookup_elem`, `update_elem`, ...) are wrapped at every point where ebpfcat
   imported them by name (`ebpfcat.bpf`, `.arraymap`, `.hashmap`, `.ebpfcat`): the wrapper registers
   the argument objects (so that a key living in a frame further out is still found) and notes the
   size the call *declares* (`fmt` -> `calcsize(fmt)` or the int itself, exactly as `_lookup_elem`
   computes it).

The fake implements array / per-CPU array / hash / LRU hash / prog-array semantics (ENOENT, E2BIG,
EEXIST, NOEXIST / EXIST flags, get_next_key iteration, lookup-and-delete), so the user-space side of
a program works without the kernel.  It never touches memory outside a Python object itself: a
transfer is clipped to the measured length of the buffer (the real kernel would not clip - that is
exactly what C10 is about - so the clipped length is what is recorded and judged by TLC).

Nothing here decides a property: events are data for spec/BpfCalls.tla (C10) and the map contents
are the environment of the histories judged by spec/Store.tla (C08 / C09)."""
import ctypes
import errno
import os
import struct
import sys
from ctypes import addressof, c_char, c_void_p, cast

TYPES = {1: "hash", 2: "array", 3: "prog", 5: "percpu_hash", 6: "percpu", 9: "lru"}
API = ("lookup_elem", "lookup_and_delete_elem", "update_elem", "delete_elem", "get_next_key")
MODULES = ("ebpfcat.bpf", "ebpfcat.arraymap", "ebpfcat.hashmap", "ebpfcat.ebpfcat")


def possible_cpus():
    """number of POSSIBLE CPUs of this host (what the kernel uses for per-CPU map values)"""
    n = 0
    with open("/sys/devices/system/cpu/possible") as f:
        for part in f.read().strip().split(","):
            lo, _, hi = part.partition("-")
            n += int(hi or lo) - int(lo) + 1
    return n


def parse_cpulist(text):
    """a kernel cpulist ("0-3,8-11", "0,2-3", "5") as [[lo, hi], ...] - the form handed to the specification,
    which counts the CPUs itself"""
    out = []
    for part in text.strip().split(","):
        lo, _, hi = part.partition("-")
        out.append([int(lo), int(hi or lo)])
    return out


def host_possible_ranges():
    with open("/sys/devices/system/cpu/possible") as f:
        return parse_cpulist(f.read())


def cpu_ids(ranges):
    return [c for lo, hi in ranges for c in range(lo, hi + 1)]


def cpulist(ids):
    """CPU numbers as the kernel prints them: maximal ranges separated by commas"""
    ids = sorted(ids)
    parts, i = [], 0
    while i < len(ids):
        j = i
        while j + 1 < len(ids) and ids[j + 1] == ids[j] + 1:
            j += 1
        parts.append(str(ids[i]) if i == j else f"{ids[i]}-{ids[j]}")
        i = j + 1
    return ",".join(parts)


def roundup8(n):
    return (n + 7) // 8 * 8


def base_len(obj):
    """(address, length) of the memory behind a buffer-like Python object, or None"""
    try:
        if isinstance(obj, bytearray):
            if not len(obj):
                return None
            return addressof(c_char.from_buffer(obj)), len(obj)
        if isinstance(obj, bytes):
            return cast(obj, c_void_p).value, len(obj)
        if isinstance(obj, (ctypes.Array, ctypes.Structure)):
            return addressof(obj), ctypes.sizeof(obj)
        if isinstance(obj, memoryview):
            if obj.readonly or not obj.contiguous or not obj.nbytes:
                return None
            return addressof(c_char.from_buffer(obj)), obj.nbytes
    except (TypeError, ValueError, BufferError):
        return None
    return None


class FakeMap:
    def __init__(self, fd, mtype, ks, vs, maxe, flags, ncpu):
        self.fd, self.type, self.ks, self.vs, self.max, self.flags = fd, mtype, ks, vs, maxe, flags
        self.stride = roundup8(vs)
        self.data = None
        self.cpus = None
        self.entries = None
        if mtype == "array":
            self.data = bytearray(self.stride * maxe)
        elif mtype == "percpu":
            self.cpus = [bytearray(self.stride * maxe) for _ in range(ncpu)]
        else:                                   # hash, lru, prog: key bytes -> value
            self.entries = {}


class FakeKernel:
    def __init__(self, possible=None, online=None, first_fd=1000, affinity=None, pin=None):
        # possible: a number (CPUs 0..n-1) or the cpulist of the host's possible mask, which need not be one
        # contiguous range ("0-3,8-11", "0,2-3": sparse masks of LPARs, VMs, possible_cpus= setups)
        if isinstance(possible, str):
            self.possible_ranges = parse_cpulist(possible)
        elif possible is None:
            self.possible_ranges = host_possible_ranges()
        else:
            self.possible_ranges = [[0, possible - 1]]
        self.possible_ids = cpu_ids(self.possible_ranges)
        self.possible = len(self.possible_ids)
        self.online = online                    # simulated host: its online CPUs (None: the real host)
        self.affinity = affinity                # simulated host: CPUs this process may run on (None: all online)
        self.pin = pin                          # real host: really confine the process to that many CPUs
        self._real_affinity = None
        self.maps = {}
        self.progs = {}
        self.pins = {}
        self.events = []
        self.next_fd = first_fd
        self.label = None                       # set by the driver: the API-level operation running
        self.pending = []                       # API-level calls in flight (innermost last)
        self.registered = []                    # objects passed through the API wrappers
        self._saved = []

    # ---- installation ------------------------------------------------------------------------
    def install(self):
        import importlib
        bpf = importlib.import_module("ebpfcat.bpf")
        mods = [importlib.import_module(m) for m in MODULES]
        self._patch(bpf, "bpf", self.bpf)
        for name in API:
            orig = getattr(bpf, name)
            wrapped = self._wrap(name, orig)
            for m in mods:
                if hasattr(m, name):
                    self._patch(m, name, wrapped)
        am = sys.modules["ebpfcat.arraymap"]
        self._patch(am, "mmap", self.mmap)
        if self.online is not None:
            self._simulate_host()
        if self.pin is not None:
            # the REAL host, but this process confined to `pin` CPUs (taskset / cpuset / container): every
            # source that counts the CPUs of the process now answers less than the possible CPUs
            self._real_affinity = os.sched_getaffinity(0)
            os.sched_setaffinity(0, set(sorted(self._real_affinity)[:max(1, self.pin)]))
        return self

    def _simulate_host(self):
        """a simulated host: EVERY way a process can learn a number of CPUs answers for this host, and each
        kind of count has its own value - possible >= online (= present, configured) >= affinity of the
        process.  Only the possible CPUs size a per-CPU value; a library that asks any other source gets a
        smaller number here whenever the host makes a difference."""
        import builtins
        import io
        import multiprocessing
        P, O = self.possible, self.online
        A = self.affinity if self.affinity is not None else O

        online_ids = self.possible_ids[:O]          # the online CPUs are some of the possible ones
        affinity_ids = online_ids[:A]
        files = {"/sys/devices/system/cpu/possible": cpulist(self.possible_ids) + "\n",
                 "/sys/devices/system/cpu/online": cpulist(online_ids) + "\n",
                 "/sys/devices/system/cpu/present": cpulist(online_ids) + "\n",
                 "/proc/cpuinfo": "".join(f"processor\t: {i}\n\n" for i in online_ids)}
        real_open, real_sysconf = builtins.open, os.sysconf

        def fake_open(path, *a, **kw):
            if isinstance(path, (str, bytes)) and (os.fsdecode(path) in files):
                text = files[os.fsdecode(path)]
                mode = a[0] if a else kw.get("mode", "r")
                return io.BytesIO(text.encode()) if "b" in mode else io.StringIO(text)
            return real_open(path, *a, **kw)

        def fake_sysconf(name):
            if name in ("SC_NPROCESSORS_ONLN", "SC_NPROCESSORS_CONF",
                        os.sysconf_names.get("SC_NPROCESSORS_ONLN"), os.sysconf_names.get("SC_NPROCESSORS_CONF")):
                return O
            return real_sysconf(name)
        fakes = {"cpu_count": lambda: O, "process_cpu_count": lambda: A,
                 "sched_getaffinity": lambda pid=0: set(affinity_ids), "sysconf": fake_sysconf,
                 "get_nprocs": lambda: O, "get_nprocs_conf": lambda: O}
        # wherever the name is bound: the os / multiprocessing modules and every module of the library that
        # imported one of these functions by name (also from a scratch copy of the package)
        targets = [os, multiprocessing] + [m for n, m in list(sys.modules.items())
                                           if m is not None and (n == "ebpfcat" or n.startswith("ebpfcat."))]
        for m in targets:
            for name, fake in fakes.items():
                if hasattr(m, name) and callable(getattr(m, name)):
                    self._patch(m, name, fake)
        self._patch(builtins, "open", fake_open)

    def _patch(self, mod, name, new):
        self._saved.append((mod, name, getattr(mod, name)))
        setattr(mod, name, new)

    def uninstall(self):
        for mod, name, old in reversed(self._saved):
            setattr(mod, name, old)
        self._saved = []
        if self._real_affinity is not None:
            os.sched_setaffinity(0, self._real_affinity)
            self._real_affinity = None

    def __enter__(self):
        return self.install()

    def __exit__(self, *a):
        self.uninstall()

    # ---- level 2: the public functions -----------------------------------------------------------
    def _wrap(self, name, orig):
        fk = self

        def wrapper(*args, **kw):
            rec = dict(api=name, declkey=-1, declval=-1)
            try:
                if name in ("lookup_elem", "lookup_and_delete_elem") and len(args) >= 3:
                    key, fmt = args[1], args[2]
                    rec["declkey"] = fk._len(key)
                    # exactly what _lookup_elem computes for the bytearray it allocates
                    rec["declval"] = fmt if isinstance(fmt, int) else struct.calcsize(fmt)
                    rec["fmt"] = fmt if isinstance(fmt, (int, str)) else repr(fmt)
                    fk.registered.append(key)
                elif name == "update_elem" and len(args) >= 3:
                    rec["declkey"] = fk._len(args[1])
                    rec["declval"] = fk._len(args[2])
                    fk.registered += [args[1], args[2]]
                elif name == "delete_elem" and len(args) >= 2:
                    rec["declkey"] = fk._len(args[1])
                    fk.registered.append(args[1])
                elif name == "get_next_key" and len(args) >= 2:
                    key = args[1]
                    if isinstance(key, int):
                        rec["declkey"], rec["declval"] = 0, key
                    else:
                        rec["declkey"] = rec["declval"] = fk._len(key)
                        fk.registered.append(key)
            except Exception:                    # odd arguments: let the library deal with them
                pass
            fk.pending.append(rec)
            mark = len(fk.registered)
            try:
                return orig(*args, **kw)
            finally:
                fk.pending.pop()
                del fk.registered[:mark]         # the objects need not be kept alive any longer
                if not fk.pending:
                    del fk.registered[:]
        wrapper.__name__ = name
        wrapper.__wrapped__ = orig
        return wrapper

    @staticmethod
    def _len(obj):
        try:
            return len(obj)
        except TypeError:
            return -1

    # ---- finding the object behind an address ------------------------------------------------------
    def resolve(self, addr, frame, depth=8):
        """(available bytes from addr to the end of the Python object containing it, how found)"""
        if addr == 0:
            return 0, "null"
        best = None

        def consider(obj, how):
            nonlocal best
            bl = base_len(obj)
            if bl is None:
                return
            base, n = bl
            if base <= addr < base + n:
                avail = base + n - addr
                # the same memory may be visible through several objects (a memoryview of a
                # bytearray): all agree on the end of the memory only if they are the same buffer;
                # take the smallest claim (most conservative) but prefer an exact base match
                cand = (0 if base == addr else 1, avail, how)
                if best is None or cand < best:
                    best = cand

        f = frame
        for level in range(depth):
            if f is None:
                break
            for name, obj in list(f.f_locals.items()):
                consider(obj, f"frame:{f.f_code.co_name}.{name}")
                d = getattr(obj, "data", None)   # Structure instances carry their bytes in .data
                if d is not None and not callable(d):
                    consider(d, f"frame:{f.f_code.co_name}.{name}.data")
            f = f.f_back
        for obj in self.registered:
            consider(obj, "api")
        if best is None:
            return -1, "unresolved"
        return best[1], best[2]

    def _read(self, addr, avail, need):
        n = max(0, min(avail, need))
        data = ctypes.string_at(addr, n) if n else b""
        return data + bytes(need - n)            # what lies beyond the object is not ours to read

    def _write(self, addr, avail, data):
        n = max(0, min(avail, len(data)))
        if n:
            ctypes.memmove(addr, bytes(data[:n]), n)

    # ---- level 1: the syscall wrapper ----------------------------------------------------------------
    def _event(self, **kw):
        ev = self._blank()
        ev.update(kw)
        if self.pending:
            p = self.pending[-1]
            ev["api"] = p["api"]
            ev["declkey"], ev["declval"] = p["declkey"], p["declval"]
            if "fmt" in p:
                ev["fmt"] = p["fmt"]
        if self.label is not None:
            ev["label"] = self.label
        self.events.append(ev)
        return ev

    @staticmethod
    def _blank():
        return dict(op="", fd=0, type="", ks=0, vs=0, max=0, keybuf=0, valbuf=0, nextbuf=0,
                    keynull=False, res="ok", known=True)

    @staticmethod
    def _fail(ev, err):
        ev["res"] = errno.errorcode.get(err, str(err))
        raise OSError(err, os.strerror(err))

    def bpf(self, cmd, fmt, *args):
        frame = sys._getframe(1)
        attr = struct.unpack(fmt, struct.pack(fmt, *args))     # the attr exactly as the kernel sees it
        if cmd == 0:
            return self._create(attr), attr
        if cmd in (1, 21):
            return self._lookup(cmd, attr, frame), attr
        if cmd == 2:
            return self._update(attr, frame), attr
        if cmd == 3:
            return self._delete(attr, frame), attr
        if cmd == 4:
            return self._next(attr, frame), attr
        if cmd == 5:                                           # PROG_LOAD: no verification here
            n, insns = attr[1], attr[2]
            code = ctypes.string_at(insns, n * 8)
            fd = self._newfd()
            self.progs[fd] = code
            self._event(op="prog_load", fd=fd)
            return fd, attr
        if cmd == 6:
            path = ctypes.string_at(attr[0])
            self.pins[path] = attr[1]
            return 0, attr
        if cmd == 7:
            path = ctypes.string_at(attr[0])
            if path not in self.pins:
                raise OSError(errno.ENOENT, os.strerror(errno.ENOENT))
            return self.pins[path], attr
        raise OSError(errno.ENOSYS, f"fake kernel: bpf command {cmd} not available")

    def _newfd(self):
        self.next_fd += 1
        return self.next_fd

    def _create(self, attr):
        mtype, ks, vs, maxe, flags = attr[:5]
        t = TYPES.get(mtype, str(mtype))
        ev = dict(op="create", type=t, ks=ks, vs=vs, max=maxe)
        bad = maxe == 0 or vs == 0 or (t in ("array", "percpu", "prog") and ks != 4) \
            or (t in ("hash", "lru", "percpu_hash") and ks == 0) or (t == "prog" and vs != 4) \
            or (flags & 1024 and t != "array")
        if bad:
            e = self._event(fd=-1, **ev)
            self._fail(e, errno.EINVAL)
        fd = self._newfd()
        self.maps[fd] = FakeMap(fd, t, ks, vs, maxe, flags, self.possible)
        self._event(fd=fd, **ev)
        return fd

    def _map(self, fd, ev):
        m = self.maps.get(fd)
        if m is None:
            ev["known"] = False
            self._fail(ev, errno.EBADF)
        ev.update(type=m.type, ks=m.ks, vs=m.vs, max=m.max)
        return m

    def value_size(self, m):
        """bytes the kernel transfers through the value pointer (bpf_map_value_size)"""
        if m.type in ("percpu", "percpu_hash"):
            return m.stride * self.possible
        return m.vs

    def _lookup(self, cmd, attr, frame):
        fd, kaddr, vaddr = attr[0], attr[1], attr[2]
        kb, khow = self.resolve(kaddr, frame)
        vb, vhow = self.resolve(vaddr, frame)
        ev = self._event(op="lookup" if cmd == 1 else "lookup_delete", fd=fd, keybuf=kb, valbuf=vb,
                         keynull=kaddr == 0, khow=khow, vhow=vhow)
        m = self._map(fd, ev)
        key = self._read(kaddr, kb, m.ks)
        if m.type == "array":
            if cmd == 21:
                self._fail(ev, errno.EINVAL)
            i = int.from_bytes(key, "little")
            if i >= m.max:
                self._fail(ev, errno.ENOENT)
            val = bytes(m.data[i * m.stride:i * m.stride + m.vs])
        elif m.type == "percpu":
            if cmd == 21:
                self._fail(ev, errno.EINVAL)
            i = int.from_bytes(key, "little")
            if i >= m.max:
                self._fail(ev, errno.ENOENT)
            val = b"".join(bytes(c[i * m.stride:(i + 1) * m.stride]) for c in m.cpus)
        else:
            if key not in m.entries:
                self._fail(ev, errno.ENOENT)
            if m.type == "prog" and cmd == 21:
                self._fail(ev, errno.EINVAL)
            val = bytes(m.entries[key])
            if cmd == 21:
                del m.entries[key]
            elif m.type == "lru":                               # a lookup refreshes the entry
                m.entries[key] = m.entries.pop(key)
        self._write(vaddr, vb, val)
        return 0

    def _update(self, attr, frame):
        fd, kaddr, vaddr, flags = attr[:4]
        kb, khow = self.resolve(kaddr, frame)
        vb, vhow = self.resolve(vaddr, frame)
        ev = self._event(op="update", fd=fd, keybuf=kb, valbuf=vb, keynull=kaddr == 0, flags=flags,
                         khow=khow, vhow=vhow)
        m = self._map(fd, ev)
        key = self._read(kaddr, kb, m.ks)
        val = self._read(vaddr, vb, self.value_size(m))
        if flags & ~7 or (flags & 3) == 3:
            self._fail(ev, errno.EINVAL)
        if m.type in ("array", "percpu"):
            i = int.from_bytes(key, "little")
            if i >= m.max:
                self._fail(ev, errno.E2BIG)
            if flags & 1:
                self._fail(ev, errno.EEXIST)
            if m.type == "array":
                m.data[i * m.stride:i * m.stride + m.vs] = val
            else:
                for c, cpu in enumerate(m.cpus):
                    cpu[i * m.stride:(i + 1) * m.stride] = val[c * m.stride:(c + 1) * m.stride]
            return 0
        if m.type == "prog":
            i = int.from_bytes(key, "little")
            if i >= m.max:
                self._fail(ev, errno.E2BIG)
            if flags & 1 and key in m.entries:
                self._fail(ev, errno.EEXIST)
            m.entries[key] = bytearray(val)
            return 0
        if flags & 1 and key in m.entries:
            self._fail(ev, errno.EEXIST)
        if flags & 2 and key not in m.entries:
            self._fail(ev, errno.ENOENT)
        if key not in m.entries and len(m.entries) >= m.max:
            if m.type == "lru":
                del m.entries[next(iter(m.entries))]
            else:
                self._fail(ev, errno.E2BIG)
        if key in m.entries:
            m.entries[key][:] = val
        else:
            m.entries[key] = bytearray(val)
        return 0

    def _delete(self, attr, frame):
        fd, kaddr = attr[0], attr[1]
        kb, khow = self.resolve(kaddr, frame)
        ev = self._event(op="delete", fd=fd, keybuf=kb, keynull=kaddr == 0, khow=khow)
        m = self._map(fd, ev)
        key = self._read(kaddr, kb, m.ks)
        if m.type in ("array", "percpu"):
            self._fail(ev, errno.EINVAL)
        if key not in m.entries:
            self._fail(ev, errno.ENOENT)
        del m.entries[key]
        return 0

    def _next(self, attr, frame):
        fd, kaddr, naddr = attr[0], attr[1], attr[2]
        kb, khow = self.resolve(kaddr, frame)
        nb, nhow = self.resolve(naddr, frame)
        ev = self._event(op="next", fd=fd, keybuf=kb, nextbuf=nb, keynull=kaddr == 0, khow=khow,
                         nhow=nhow)
        m = self._map(fd, ev)
        key = None if kaddr == 0 else self._read(kaddr, kb, m.ks)
        if m.type in ("array", "percpu", "prog"):
            i = 0xffffffff if key is None else int.from_bytes(key, "little")
            if i >= m.max:
                nxt = 0
            elif i == m.max - 1:
                self._fail(ev, errno.ENOENT)
            else:
                nxt = i + 1
            self._write(naddr, nb, nxt.to_bytes(4, "little"))
            return 0
        keys = list(m.entries)
        if not keys:
            self._fail(ev, errno.ENOENT)
        if key is None or key not in m.entries:
            nxt = keys[0]
        else:
            i = keys.index(key)
            if i + 1 >= len(keys):
                self._fail(ev, errno.ENOENT)
            nxt = keys[i + 1]
        self._write(naddr, nb, nxt)
        return 0

    # ---- mmap of an array map ---------------------------------------------------------------------------
    def mmap(self, fd, size):
        ev = self._event(op="mmap", fd=fd, valbuf=size)
        m = self._map(fd, ev)
        if m.type != "array" or not m.flags & 1024:
            self._fail(ev, errno.EPERM)
        page = 4096
        if size <= 0 or size > (len(m.data) + page - 1) // page * page:
            self._fail(ev, errno.EINVAL)
        if size == len(m.data):
            return m.data                        # the map's own bytes: writes are seen by "the kernel"
        if size < len(m.data):
            return memoryview(m.data)[:size]
        m.data.extend(bytes(size - len(m.data)))  # rest of the last page
        return m.data

    # ---- direct access for drivers (the environment side: what a program run did to the maps) -----------
    def hash_items(self, fd):
        return [(bytes(k), bytes(v)) for k, v in self.maps[fd].entries.items()]

    def hash_replace(self, fd, items):
        """set the contents of a hash map to `items` (iterable of (key, value)), keeping the insertion
        order of surviving keys and appending new ones"""
        m = self.maps[fd]
        new = {bytes(k): bytes(v) for k, v in items}
        for k in list(m.entries):
            if k not in new:
                del m.entries[k]
        for k, v in new.items():
            if k in m.entries:
                m.entries[k][:] = v
            else:
                m.entries[k] = bytearray(v)

    def array_bytes(self, fd, cpu=None):
        m = self.maps[fd]
        return bytes(m.data[:m.stride * m.max]) if m.type == "array" else bytes(m.cpus[cpu])

    def array_store(self, fd, data, cpu=None):
        m = self.maps[fd]
        if m.type == "array":
            m.data[:len(data)] = data
        else:
            m.cpus[cpu][:len(data)] = data
