#!/venv/bin/python
import json, os, sys
sys.path.insert(0, os.path.dirname(os.path.dirname(os.path.abspath(__file__))))
from checks.registry import CLAIMED, NOT_YET, NOT_APPLICABLE
V = os.path.dirname(os.path.dirname(os.path.abspath(__file__)))
props = [json.loads(l)["id"] for l in open(os.path.join(V, "properties.jsonl"))]
hooks = json.load(open(os.path.join(V, "hooks.json")))
m = {
    "version": 1,
    "setup_cmd": "./setup.sh",
    "hooks": hooks,
    "engines": [{"name": "tlc", "path": "/opt/veriftools/tla/tla2tools.jar",
                 "serves_properties": sorted(CLAIMED),
                 "kind_free_text": "TLA+ specifications in /verif/spec checked with TLC 1.8; conformance "
                                   "harness in /verif/harness (Python, stdlib) replays TLC-generated "
                                   "behaviours into /repo's code and validates recorded traces with TLC"}],
    "checks": [],
    "not_applicable": [],
    "notes": "All checks: ./check <id> --tier quick|thorough; exit 0 held / 1 VIOLATION / 2 machinery "
             "failure. Known findings: /verif/known_findings.json. See DESIGN.md.",
}
for p in props:
    if p in CLAIMED:
        c = CLAIMED[p]
        m["checks"].append({
            "property_id": p,
            "quick_cmd": f"./check {p} --tier quick",
            "thorough_cmd": f"./check {p} --tier thorough",
            "evidence_file": f"/verif/evidence/{p}.json",
            "replay_cmd_template": f"./check {p} --replay {{path}}",
            "engine": "tlc",
            "level_claimed": {"category": c["category"], "text": c["text"],
                              "design_ref": c.get("design_ref", "")},
            "level_note": c["note"],
            "technique": c["technique"],
        })
    else:
        m["not_applicable"].append({"property_id": p, "reason": NOT_APPLICABLE.get(p, NOT_YET)})
json.dump(m, open(os.path.join(V, "MANIFEST.json"), "w"), indent=1)
print("claimed", len(m["checks"]), "not claimed", len(m["not_applicable"]))
