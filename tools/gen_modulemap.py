#!/usr/bin/env python3
"""Regenerate the module table of DESIGN.md section 10.8 from /verif/spec (names, line counts, first header line)."""
import os
import re

ROOT = os.path.dirname(os.path.dirname(os.path.abspath(__file__)))
SPEC = os.path.join(ROOT, "spec")


def header(path):
    text = open(path).read()
    m = re.search(r"\(\*\s*(.+)", text)
    return (m.group(1).strip().rstrip("*)").strip() if m else "").replace("|", "\\|")


def main():
    mods = {f[:-4]: sum(1 for _ in open(os.path.join(SPEC, f))) for f in sorted(os.listdir(SPEC)) if f.endswith(".tla")}
    names = set(mods)
    groups = {}
    for m in mods:
        core = re.sub(r"^(MC_|Ind_)", "", m)
        cands = [n for n in names if core.startswith(n) and not n.startswith(("MC_", "Ind_"))]
        g = max(cands, key=len) if cands else re.match(r"[A-Z][a-z0-9]*", core).group(0)
        # a trace / script / proof module belongs to the module it is about, not to itself
        if g == core and core != m:
            pass
        groups.setdefault(g, []).append(m)
    # fold groups whose name extends another group's name by a role suffix (Trace, Scripts, Run, ...) into it
    for g in sorted(groups, key=len, reverse=True):
        base = [b for b in groups if b != g and g.startswith(b) and re.fullmatch(
            r"(Trace|Scripts|Run|Eq|Proof|Test|Check|Diag|Ref|Configs|Boundary|Image|Eval|Dicts|Msgs|Frame|Table|Decls|Bind|T|2|Addr|Frames|Par|All|Counter|Lcg|History|Group|Config|Mutex|LockedInit|Bare|MaxFault)+", g[len(b):])]
        if base:
            b = max(base, key=len)
            groups[b] += groups.pop(g)
    rows = ["| Group | Modules (lines) | Header of the main module |", "|---|---|---|"]
    for g in sorted(groups):
        ms = sorted(groups[g])
        main_mod = g if g in mods else ms[0]
        rows.append(f"| {g} | {', '.join(f'{m} ({mods[m]})' for m in ms)} | {header(os.path.join(SPEC, main_mod + '.tla'))[:110]} |")
    path = os.path.join(ROOT, "DESIGN.md")
    text = open(path).read().split("\n")
    start = next(k for k, l in enumerate(text) if l.startswith("### 10.8"))
    text[start] = re.sub(r"\d+ modules, \d+ lines", f"{len(mods)} modules, {sum(mods.values())} lines", text[start])
    k = start
    while not text[k].startswith("| Group"):
        k += 1
    e = k
    while text[e].startswith("|"):
        e += 1
    text[k:e] = rows
    open(path, "w").write("\n".join(text))
    print(f"10.8 regenerated: {len(mods)} modules in {len(groups)} groups, {sum(mods.values())} lines")


if __name__ == "__main__":
    main()
