#!/venv/bin/python
"""append text to a TLA+ module just before its final ==== line, and check with SANY that the
named operators are visible from a client module (a bare parse proves nothing about text that
ended up after the terminator)."""
import os, re, subprocess, sys, tempfile, shutil
JARS = "/opt/veriftools/tla/tla2tools.jar:/opt/veriftools/tla/CommunityModules-deps.jar"

def append(path, text):
    lines = open(path).read().rstrip("\n").split("\n")
    assert re.fullmatch(r"=+", lines[-1]), "module must end with its terminator"
    body = lines[:-1] + text.strip("\n").split("\n") + [lines[-1]]
    assert sum(1 for l in body if re.fullmatch(r"={4,}", l)) == 1, "stray terminator inside module"
    open(path, "w").write("\n".join(body) + "\n")

def visible(path, names):
    """(1) SANY accepts the module; (2) each name is defined on a line before the terminator.
    Together: the appended text is inside the module and is well-formed."""
    src = open(path).read().split("\n")
    term = max(i for i, l in enumerate(src) if re.fullmatch(r"={4,}", l))
    missing = [n for n in names
               if not any(re.match(rf"(RECURSIVE\s+)?{re.escape(n)}(\(|\s*==)", l) and not l.startswith("RECURSIVE")
                          for l in src[:term])]
    out = subprocess.run(["timeout", "120", "java", "-cp", JARS, "tla2sany.SANY", os.path.basename(path)],
                         cwd=os.path.dirname(os.path.abspath(path)), stdout=subprocess.PIPE,
                         stderr=subprocess.STDOUT, text=True).stdout
    bad = [l for l in out.splitlines() if re.search(r"rror|Unknown|line \d+, col|Could not", l)]
    mod = os.path.basename(path)[:-4]
    ok = not bad and not missing and f"Semantic processing of module {mod}" in out
    return ok, "\n".join(bad[:12] + ([f"not defined before terminator: {missing}"] if missing else []))


if __name__ == "__main__":
    path, textfile, *names = sys.argv[1:]
    if textfile != "-":           # "-" = only check
        append(path, open(textfile).read())
    ok, msg = visible(path, names)
    print("visible:", ok, msg)
    sys.exit(0 if ok else 1)
