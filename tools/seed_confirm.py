#!/venv/bin/python
"""Confirm one independently seeded breaking change and run our check against it.

usage: tools/seed_confirm.py <property id> [tier]
  /tmp/seed-<id>/ must hold patch.diff, demo.py, meta.txt (written by a seeding agent).
Steps (all in scratch copies; /repo is never modified):
  1. the patch applies to a pristine export of the worktree's base commit and touches only ebpfcat/ sources (no tests)
  2. the repository test suite gives the baseline result with the patch
  3. demo.py exits non-zero WITH the patch and zero WITHOUT it
  4. the patch applies to the CURRENT /repo tree; ./check <id> is run against that patched copy
Writes /verif/seeded/<id>/{patch.diff, demo.py, meta.json, agent_meta.txt}."""
import json, os, re, shutil, subprocess, sys, time
V = os.path.dirname(os.path.dirname(os.path.abspath(__file__)))
pid = sys.argv[1]; tier = sys.argv[2] if len(sys.argv) > 2 else "quick"
suffix = sys.argv[3] if len(sys.argv) > 3 else ""          # "-2": a second change for the same property
src = f"/tmp/seed{suffix}-{pid}" if suffix else f"/tmp/seed-{pid}"
work = os.path.join(V, "work", f"seedc-{pid}{suffix}")
shutil.rmtree(work, ignore_errors=True); os.makedirs(work)
def sh(cmd, cwd=None, timeout=3600, env=None):
    p = subprocess.run(cmd, shell=True, cwd=cwd, stdout=subprocess.PIPE, stderr=subprocess.STDOUT, text=True, timeout=timeout, env=env)
    return p.returncode, p.stdout
def really_changed(d, commit):
    ch = []
    for f in files:
        rc, orig = sh(f"git -C /repo show {commit}:{f}")
        if rc != 0 or open(os.path.join(d, f)).read() != orig: ch.append(f)
    return ch
out = {"property": pid, "checked_at": time.strftime("%Y-%m-%d %H:%M:%S")}
patch = open(os.path.join(src, "patch.diff")).read()
files = re.findall(r"^\+\+\+ b/(\S+)", patch, re.M)
out["files_changed"] = files
out["only_package_sources"] = bool(files) and all(f.startswith("ebpfcat/") and not f.endswith("_test.py") and "testdata" not in f for f in files)
base = sh("git rev-parse HEAD", cwd=src)[1].strip()
out["base_commit"] = base
# 1 + 2 + 3 on a pristine export of the base commit
a = os.path.join(work, "base"); os.makedirs(a)
sh(f"git -C /repo archive {base} | tar -x -C {a}")
shutil.copy(os.path.join(src, "demo.py"), os.path.join(a, "demo.py"))
rc, o = sh("/venv/bin/python demo.py", cwd=a, timeout=900); out["demo_exit_without_change"] = rc
rc, o = sh(f"patch -p1 -s --no-backup-if-mismatch < {src}/patch.diff", cwd=a); out["patch_applies_to_base"] = rc == 0
out["files_really_changed_in_base"] = really_changed(a, base)
rc, o = sh("/venv/bin/python -m pytest -q -p no:cacheprovider --timeout=900 ebpfcat 2>&1 | tail -1", cwd=a, timeout=1800)
out["suite_with_change"] = o.strip()
rc, o = sh("/venv/bin/python demo.py", cwd=a, timeout=900); out["demo_exit_with_change"] = rc; out["demo_output_tail"] = o[-600:]
# 4: current /repo + patch, then our check
b = os.path.join(work, "cur"); os.makedirs(b)
cur = sh("git -C /repo rev-parse --short HEAD")[1].strip(); out["checked_against_repo_commit"] = cur
sh(f"git -C /repo archive HEAD | tar -x -C {b}")
rc, o = sh(f"patch -p1 -s --no-backup-if-mismatch < {src}/patch.diff", cwd=b); out["patch_applies_to_current_repo"] = rc == 0
out["files_really_changed_in_current"] = really_changed(b, "HEAD")
if rc == 0 and sorted(out["files_really_changed_in_current"]) != sorted(files):
    print(f"MACHINERY: patch for {pid} did not change exactly {files}: {out['files_really_changed_in_current']}", file=sys.stderr); sys.exit(2)
if rc != 0: out["apply_error"] = o[-400:]
else:
    env = dict(os.environ, VERIF_REPO_OVERRIDE=b)
    t = time.time()
    rc, o = sh(f"./check {pid} --tier {tier}", cwd=V, timeout=7200, env=env)
    out["check_tier"] = tier; out["check_exit"] = rc; out["check_wall_s"] = round(time.time() - t, 1)
    out["check_summary"] = next((l for l in o.splitlines() if l.startswith(f"{pid} {tier}")), o[-300:])
    out["check_violation_lines"] = sum(1 for l in o.splitlines() if l.startswith("VIOLATION"))
    out["first_reason"] = next((l.strip()[:400] for l in o.splitlines() if l.strip().startswith("reason")), "")
    out["detected"] = rc == 1
d = os.path.join(V, "seeded", pid + suffix); os.makedirs(d, exist_ok=True)
shutil.copy(os.path.join(src, "patch.diff"), d); shutil.copy(os.path.join(src, "demo.py"), d)
if os.path.exists(os.path.join(src, "meta.txt")): shutil.copy(os.path.join(src, "meta.txt"), os.path.join(d, "agent_meta.txt"))
out["confirmed"] = bool(out["only_package_sources"] and out["patch_applies_to_base"] and sorted(out["files_really_changed_in_base"]) == sorted(files) and out["demo_exit_without_change"] == 0
                        and out["demo_exit_with_change"] != 0 and out["suite_with_change"].startswith("5 failed, 44 passed"))
json.dump(out, open(os.path.join(d, "meta.json"), "w"), indent=1)
shutil.rmtree(work, ignore_errors=True)
shutil.rmtree(os.path.join(V, "replays", pid), ignore_errors=True)
print(json.dumps({k: out[k] for k in out if k not in ("demo_output_tail",)}, indent=1))
