#!/venv/bin/python
"""Early-exit shapes (F48): every shape x condition kind is loaded into the kernel from the tree given as argument
(default /repo) and run on a grid of inputs; exit code and the two variables are compared with a Python model of the
control flow.  usage: tools/early_exit_semantics.py [tree]   (not a registered check: C05 judges acceptance of these
shapes, this script the values; prints the number of runs and of disagreements)"""
import itertools
import os
import sys
root = sys.argv[1] if len(sys.argv) > 1 else "/repo"
sys.path.insert(0, root)
from ebpfcat.xdp import XDP, XDPExitCode          # noqa: E402
from ebpfcat.arraymap import ArrayMap             # noqa: E402
from ebpfcat.bpf import prog_test_run             # noqa: E402
conds = {"eq": (lambda s: s.a == 3, lambda a, b, c: a == 3),
         "and": (lambda s: (s.a == 3) & (s.b > 4), lambda a, b, c: a == 3 and b > 4),
         "or": (lambda s: (s.a == 3) | (s.b > 4), lambda a, b, c: a == 3 or b > 4),
         "not": (lambda s: ~(s.a == 3), lambda a, b, c: a != 3),
         "bits": (lambda s: s.a & 4, lambda a, b, c: bool(a & 4)),
         "signed": (lambda s: s.c < -2, lambda a, b, c: c < -2),
         "notbits": (lambda s: ~((s.a & 4) != 0), lambda a, b, c: not a & 4),
         "bitsor": (lambda s: ((s.a & 4) != 0) | (s.b == 1), lambda a, b, c: bool(a & 4) or b == 1),
         "bitsand": (lambda s: (s.b == 1) & ((s.a & 6) != 0), lambda a, b, c: b == 1 and bool(a & 6))}
D, T, P = XDPExitCode.DROP, XDPExitCode.TX, XDPExitCode.PASS


def sh1(s, cond):
    with cond(s) as Else:
        s.b = 5
        s.exit(D)
    with Else:
        s.b = 7
    s.c = 1


def m1(a, b, c, f):
    return (D, 5, c) if f(a, b, c) else (P, 7, 1)


def sh2(s, cond):
    with cond(s) as Else:
        s.b = 5
        with s.b > s.a:
            s.exit(D)
    with Else:
        s.b = 7
    s.c = 1


def m2(a, b, c, f):
    if f(a, b, c):
        return (D, 5, c) if 5 > a else (P, 5, 1)
    return (P, 7, 1)


def sh3(s, cond):
    with cond(s) as Else:
        with s.b > s.a as E2:
            s.exit(D)
        with E2:
            s.exit(T)
    with Else:
        s.b = 7
    s.c = 1


def m3(a, b, c, f):
    if f(a, b, c):
        return (D, b, c) if b > a else (T, b, c)
    return (P, 7, 1)


def sh4(s, cond):
    with cond(s) as Else:
        s.b = 5
    with Else:
        s.exit(D)
    s.c = 1


def m4(a, b, c, f):
    return (P, 5, 1) if f(a, b, c) else (D, b, c)


def sh5(s, cond):
    with cond(s):
        s.exit(D)
    s.c = 1


def m5(a, b, c, f):
    return (D, b, c) if f(a, b, c) else (P, b, 1)


def sh6(s, cond):                  # a user jump landing between the blocks: at the jump over the Else block
    j = s.jumpIf(s.b == 9)
    with cond(s) as Else:
        s.b = 5
        s.exit(D)
    j.target()
    with Else:
        s.b = 7
    s.c = 1


def m6(a, b, c, f):
    if b == 9:
        return (P, 9, 1)
    return (D, 5, c) if f(a, b, c) else (P, 7, 1)


def sh8(s, cond):                  # the inner Else ends in exit at the end of the outer Else
    with cond(s) as Else:
        s.b = 5
    with Else:
        with s.b == 1 as E2:
            s.c = 9
        with E2:
            s.exit(D)
    s.c = s.c + 1


def m8(a, b, c, f):
    if f(a, b, c):
        return (P, 5, c + 1)
    return (P, b, 10) if b == 1 else (D, b, c)


shapes = [(sh1, m1), (sh2, m2), (sh3, m3), (sh4, m4), (sh5, m5), (sh6, m6), (sh8, m8)]
bad = n = observed = 0
for cn, (cond, f) in conds.items():
    for k, (sh, mod) in enumerate(shapes):
        m = ArrayMap()

        def program(self, sh=sh, cond=cond):
            sh(self, cond)
            self.exit(P)
        cls = type("X", (XDP,), dict(m=m, a=m.globalVar("I"), b=m.globalVar("I"), c=m.globalVar("q"), license="GPL",
                                    program=program))
        p = cls()
        try:
            p.load()
        except Exception as e:
            print("LOADFAIL", cn, sh.__name__, str(e)[:80])
            bad += 1
            continue
        for a, b, c in itertools.product([0, 3, 4, 6, 7], [0, 1, 5, 9], [-5, 0, 3]):
            p.a, p.b, p.c = a, b, c
            ret = prog_test_run(p.file_descriptor, bytes(64), 64, 0, 0, 1)[1]
            got = (ret, p.b, p.c)
            exp = mod(a, b, c, f)
            exp = (exp[0].value, exp[1], exp[2])
            n += 1
            if got != exp:
                if cn == "bits" and sh is sh6:
                    observed += 1          # DESIGN 10.6: a user jump target between the blocks of a bit-test condition
                    continue
                bad += 1
                if bad < 15:
                    print("WRONG", cn, sh.__name__, (a, b, c), "got", got, "expected", exp)
        os.close(p.file_descriptor)
print(f"runs {n} disagreements {bad} (observation bits/jump-between-blocks: {observed})")
sys.exit(1 if bad else 0)
