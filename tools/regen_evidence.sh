#!/bin/bash
# run every claimed check (quick tier unless $1 = thorough) against /repo, one after the other, and summarise;
# the evidence files are written by the checks themselves.  usage: tools/regen_evidence.sh [quick|thorough] [ids...]
cd "$(dirname "$0")/.."
tier=${1:-quick}; shift
ids="$@"
[ -z "$ids" ] && ids=$(/venv/bin/python -c "import json; print(' '.join(c['property_id'] for c in json.load(open('MANIFEST.json'))['checks']))")
mkdir -p work/ev; : > work/ev/summary-$tier.log
for id in $ids; do
  ./check $id --tier $tier > work/ev/$id-$tier.out 2>&1; rc=$?
  echo "$id check_exit=$rc $(tail -1 work/ev/$id-$tier.out | cut -c1-200) known-lines=$(grep -c '^KNOWN-FINDING' work/ev/$id-$tier.out) violation-lines=$(grep -c '^VIOLATION' work/ev/$id-$tier.out)" >> work/ev/summary-$tier.log
done
echo ALLDONE >> work/ev/summary-$tier.log
