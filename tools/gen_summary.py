#!/usr/bin/env python3
"""Regenerate the two tables of DESIGN.md section 10.10 from known_findings.json and evidence/.

Usage: tools/gen_summary.py            (rewrites the tables in place; the prose around them is kept)
"""
import json
import os
import re

ROOT = os.path.dirname(os.path.dirname(os.path.abspath(__file__)))


def num(n):
    return f"{n:,}".replace(",", " ")


def findings_table():
    rows = ["| Finding | Property | Status | Commit | What failed |", "|---|---|---|---|---|"]
    for f in json.load(open(os.path.join(ROOT, "known_findings.json"))):
        what = f["what"].replace("|", "\\|").replace("\n", " ")
        rows.append(f"| {f['id']} | {f['property']} | {f['status']} | {f.get('commit') or '-'} | {what} |")
    return rows


def quick_table():
    rows = ["| Check | evaluations | distinct non-trivial | TLC states | traces bound to the code "
            "| unlisted violations | known-finding cases | wall |",
            "|---|---|---|---|---|---|---|---|"]
    ids = [f"C{k:02d}" for k in range(1, 31)] + [f"X{k:02d}" for k in range(1, 11)]
    total = 0.0
    for i in ids:
        path = os.path.join(ROOT, "evidence", f"{i}.json" if i[0] == "C" else f"extra/{i}.json")
        if not os.path.exists(path):
            continue
        e = json.load(open(path))
        if e.get("tier") != "quick":
            continue
        c = e["coverage"]
        wall = e.get("wall_s", 0)
        if i[0] == "C":
            total += wall
        known = sum((c.get("known_findings_hit") or {}).values())
        viol = len(e.get("violations", [])) if isinstance(e.get("violations"), list) else e.get("violations", 0)
        rows.append(f"| {i} | {num(c.get('evaluations', 0))} | {num(c.get('distinct_nontrivial', 0))} "
                    f"| {num(c.get('states', 0))} | {num(c.get('traces_validated_against_impl', 0))} "
                    f"| {viol} | {known} | {wall:.0f} s |")
    return rows, total


def main():
    path = os.path.join(ROOT, "DESIGN.md")
    text = open(path).read().split("\n")
    start = next(k for k, l in enumerate(text) if l.startswith("### 10.10"))
    # the section: heading, blank, findings table, blank, quick table, blank, closing prose
    k = start + 1
    out = text[:k] + [""]
    while not text[k].startswith("|"):
        k += 1
    while text[k].startswith("|"):
        k += 1
    out += findings_table() + [""]
    while not text[k].startswith("|"):
        k += 1
    while text[k].startswith("|"):
        k += 1
    rows, total = quick_table()
    out += rows
    rest = text[k:]
    rest = [re.sub(r"quick tiers in that run: \d+ s", f"quick tiers in that run: {total:.0f} s", l) for l in rest]
    out += rest
    open(path, "w").write("\n".join(out))
    print(f"10.10 regenerated: {len(findings_table()) - 2} findings, {len(rows) - 2} checks, {total:.0f} s")


if __name__ == "__main__" and "--thorough" not in __import__("sys").argv:
    main()


def thorough_table(logs=("work/ev/summary-thorough.log", "work/ev/summary-thorough2.log")):
    """section 10.9 from the summary lines of tools/regen_evidence.sh thorough (later logs override earlier ones)"""
    rec = {}
    for log in logs:
        path = os.path.join(ROOT, log)
        if not os.path.exists(path):
            continue
        for line in open(path):
            m = re.match(r"(\w+) check_exit=(\d+) \w+ thorough: evaluations=(\d+) distinct=(\d+) states=(\d+) "
                         r"transitions=(\d+) traces=(\d+) violations=(\d+) known=(\d+) wall=([\d.]+)s", line)
            if m:
                rec[m.group(1)] = m.groups()
    rows = ["| Check | evaluations | distinct non-trivial | TLC states | traces bound to the code "
            "| unlisted violations | known-finding cases | wall |", "|---|---|---|---|---|---|---|---|"]
    for i in sorted(rec):
        _, rc, ev, di, st, tr, tc, vi, kn, wall = rec[i]
        rows.append(f"| {i} | {num(int(ev))} | {num(int(di))} | {num(int(st))} | {num(int(tc))} | {vi} | {kn} | {float(wall):.0f} s |")
    path = os.path.join(ROOT, "DESIGN.md")
    text = open(path).read().split("\n")
    start = next(k for k, l in enumerate(text) if l.startswith("### 10.9"))
    k = start
    while not text[k].startswith("| Check"):
        k += 1
    e = k
    while text[e].startswith("|"):
        e += 1
    text[k:e] = rows
    open(path, "w").write("\n".join(text))
    print(f"10.9 regenerated: {len(rec)} checks")


if __name__ == "__main__" and "--thorough" in __import__("sys").argv:
    thorough_table()
