#!/opt/veriftools/pyvenv/bin/python
"""validate MANIFEST.json and evidence/*.json against the schemas (tooling venv has jsonschema)"""
import json, glob, sys, jsonschema
ok = True
jsonschema.validate(json.load(open('/verif/MANIFEST.json')), json.load(open('/root/.vp/MANIFEST.schema.json')))
print('manifest valid')
s = json.load(open('/root/.vp/EVIDENCE.schema.json'))
for f in sorted(glob.glob('/verif/evidence/*.json')):
    try:
        jsonschema.validate(json.load(open(f)), s)
    except Exception as e:
        ok = False
        print('INVALID', f, str(e)[:300])
print('evidence ok' if ok else 'evidence problems')
sys.exit(0 if ok else 1)
